// Command instr rewrites the library's source files for the instrumented
// ("verif") build and writes them, with an overlay fragment, to an output
// directory. /repo itself is never touched.
//
// usage: instr -repo /repo -out /verif/.work/instr
//
// Rewrites (all additive in behaviour, see DESIGN.md section 3.2):
//  1. every range over a map  -> range over verifrt.Pairs(site, m)
//  2. verifrt.Yield(site) at every function entry, verifrt.Tick() in every loop body
//  3. one generated file per package registering package-level variables and facts
package main

import (
	"encoding/json"
	"flag"
	"fmt"
	"go/ast"
	"go/token"
	"go/types"
	"os"
	"path/filepath"
	"sort"
	"strings"

	"golang.org/x/tools/go/packages"
)

const rtPath = "github.com/woodsbury/jmespath/internal/verifrt"

type edit struct {
	start, end int
	text       string
}

type report struct {
	MapSites     []string `json:"map_sites"`
	SkippedSites []string `json:"skipped_sites"`
	UsesSync     []string `json:"uses_sync"`
	SyncModelled []string `json:"sync_modelled"`   // sync.X rewritten to its verifrt model
	SyncUnmodel  []string `json:"sync_unmodelled"` // sync.X / sync/atomic uses left alone
	UsesGo       []string `json:"uses_go"`
	UsesChan     []string `json:"uses_chan"`
	Globals      []string `json:"globals"`
	Funcs        int      `json:"funcs"`
	Loops        int      `json:"loops"`
	Files        []string `json:"files"`
}

func main() {
	repo := flag.String("repo", "/repo", "module root")
	out := flag.String("out", "", "output directory")
	flag.Parse()
	if *out == "" {
		fmt.Fprintln(os.Stderr, "instr: -out required")
		os.Exit(2)
	}
	if err := os.MkdirAll(*out, 0o755); err != nil {
		fatal(err)
	}

	cfg := &packages.Config{
		Mode: packages.NeedName | packages.NeedFiles | packages.NeedCompiledGoFiles | packages.NeedSyntax |
			packages.NeedTypes | packages.NeedTypesInfo | packages.NeedImports | packages.NeedDeps,
		Dir:   *repo,
		Tests: false,
	}
	pkgs, err := packages.Load(cfg, "./...")
	if err != nil {
		fatal(err)
	}

	var rep report
	overlay := map[string]string{}
	depSeen := map[string]bool{}

	for _, pkg := range pkgs {
		if len(pkg.Errors) > 0 {
			for _, e := range pkg.Errors {
				fmt.Fprintln(os.Stderr, "instr: package error:", e)
			}
			os.Exit(2)
		}
		if !strings.HasPrefix(pkg.PkgPath, "github.com/woodsbury/jmespath") ||
			strings.Contains(pkg.PkgPath, "/internal/verif") || strings.Contains(pkg.PkgPath, "/cmd/") {
			continue
		}
		short := pkg.Name
		pkgDir := ""
		for i, f := range pkg.Syntax {
			fname := pkg.CompiledGoFiles[i]
			if strings.HasSuffix(fname, "_test.go") {
				continue
			}
			pkgDir = filepath.Dir(fname)
			src, err := os.ReadFile(fname)
			if err != nil {
				fatal(err)
			}
			edits := instrumentFile(pkg, f, src, short, &rep)
			if len(edits) == 0 {
				continue
			}
			// import, right after the package clause
			nameEnd := pkg.Fset.Position(f.Name.End()).Offset
			edits = append(edits, edit{nameEnd, nameEnd, "; import verifrt \"" + rtPath + "\""})
			newSrc := apply(src, edits)
			rel, _ := filepath.Rel(*repo, fname)
			dst := filepath.Join(*out, strings.ReplaceAll(rel, string(filepath.Separator), "__"))
			if err := os.WriteFile(dst, newSrc, 0o644); err != nil {
				fatal(err)
			}
			overlay[fname] = dst
			rep.Files = append(rep.Files, rel)
		}
		if pkgDir == "" {
			continue
		}
		// registration file
		var b strings.Builder
		b.WriteString("//go:build verif\n\npackage " + pkg.Name + "\n\nimport verifrt \"" + rtPath + "\"\n")
		// exported package-level variables of the module's dependencies (not the standard library) that this package
		// imports: state the library can reach and change (a default rounding mode, a registry) is shared state too
		var depRegs []string
		ipaths := make([]string, 0, len(pkg.Imports))
		for ip := range pkg.Imports {
			ipaths = append(ipaths, ip)
		}
		sort.Strings(ipaths)
		for _, ip := range ipaths {
			first := strings.SplitN(ip, "/", 2)[0]
			if !strings.Contains(first, ".") || strings.HasPrefix(ip, "github.com/woodsbury/jmespath") || depSeen[ip] {
				continue
			}
			dep := pkg.Imports[ip]
			if dep.Types == nil {
				continue
			}
			alias := fmt.Sprintf("verifdep%d", len(depSeen))
			depSeen[ip] = true
			used := false
			dscope := dep.Types.Scope()
			dnames := dscope.Names()
			sort.Strings(dnames)
			for _, n := range dnames {
				if v, ok := dscope.Lookup(n).(*types.Var); ok && v.Exported() {
					full := ip + "." + v.Name()
					depRegs = append(depRegs, fmt.Sprintf("\tverifrt.Register(%q, &%s.%s)\n", full, alias, v.Name()))
					rep.Globals = append(rep.Globals, full)
					used = true
				}
			}
			if used {
				b.WriteString("import " + alias + " \"" + ip + "\"\n")
			}
		}
		b.WriteString("\nfunc init() {\n\tverifrt.Instrumented = true\n")
		for _, l := range depRegs {
			b.WriteString(l)
		}
		scope := pkg.Types.Scope()
		names := scope.Names()
		sort.Strings(names)
		for _, n := range names {
			if v, ok := scope.Lookup(n).(*types.Var); ok {
				full := short + "." + v.Name()
				fmt.Fprintf(&b, "\tverifrt.Register(%q, &%s)\n", full, v.Name())
				rep.Globals = append(rep.Globals, full)
			}
		}
		b.WriteString("}\n")
		rel, _ := filepath.Rel(*repo, pkgDir)
		gen := filepath.Join(*out, strings.ReplaceAll(rel, string(filepath.Separator), "__")+"__zz_verif_globals.go")
		if err := os.WriteFile(gen, []byte(b.String()), 0o644); err != nil {
			fatal(err)
		}
		overlay[filepath.Join(pkgDir, "zz_verif_globals.go")] = gen
	}

	// facts file (lives in verifrt's own directory so that it is always linked)
	var fb strings.Builder
	fb.WriteString("//go:build verif\n\npackage verifrt\n\nfunc init() {\n")
	wl := func(name string, l []string) {
		for _, s := range l {
			fmt.Fprintf(&fb, "\t%s = append(%s, %q)\n", name, name, s)
		}
	}
	wl("MapSites", rep.MapSites)
	wl("SkippedSites", rep.SkippedSites)
	wl("UsesSync", rep.UsesSync)
	wl("SyncModelled", rep.SyncModelled)
	wl("SyncUnmodelled", rep.SyncUnmodel)
	wl("UsesGo", rep.UsesGo)
	wl("UsesChan", rep.UsesChan)
	fb.WriteString("}\n")
	facts := filepath.Join(*out, "verifrt_facts.go")
	if err := os.WriteFile(facts, []byte(fb.String()), 0o644); err != nil {
		fatal(err)
	}
	overlay[filepath.Join(*repo, "internal", "verifrt", "zz_facts.go")] = facts

	ob, _ := json.MarshalIndent(map[string]any{"Replace": overlay}, "", " ")
	if err := os.WriteFile(filepath.Join(*out, "overlay.json"), ob, 0o644); err != nil {
		fatal(err)
	}
	rb, _ := json.MarshalIndent(rep, "", " ")
	if err := os.WriteFile(filepath.Join(*out, "report.json"), rb, 0o644); err != nil {
		fatal(err)
	}
	fmt.Printf("instr: %d files, %d map sites (%d skipped), %d funcs, %d loops, %d globals, sync=%d go=%d chan=%d\n",
		len(rep.Files), len(rep.MapSites), len(rep.SkippedSites), rep.Funcs, rep.Loops, len(rep.Globals), len(rep.UsesSync), len(rep.UsesGo), len(rep.UsesChan))
}

func fatal(err error) {
	fmt.Fprintln(os.Stderr, "instr:", err)
	os.Exit(2)
}

func apply(src []byte, edits []edit) []byte {
	sort.SliceStable(edits, func(i, j int) bool {
		if edits[i].start != edits[j].start {
			return edits[i].start > edits[j].start
		}
		return edits[i].end > edits[j].end
	})
	out := src
	for _, e := range edits {
		out = append(append(append([]byte{}, out[:e.start]...), e.text...), out[e.end:]...)
	}
	return out
}

func instrumentFile(pkg *packages.Package, f *ast.File, src []byte, short string, rep *report) []edit {
	fset := pkg.Fset
	off := func(p token.Pos) int { return fset.Position(p).Offset }
	text := func(n ast.Node) string { return string(src[off(n.Pos()):off(n.End())]) }
	pos := func(p token.Pos) string {
		q := fset.Position(p)
		return fmt.Sprintf("%s/%s:%d", short, filepath.Base(q.Filename), q.Line)
	}
	var edits []edit

	for _, imp := range f.Imports {
		p := strings.Trim(imp.Path.Value, "\"")
		if p == "sync" || p == "sync/atomic" {
			rep.UsesSync = append(rep.UsesSync, pos(imp.Pos())+" "+p)
		}
	}

	// sync types that have a model in verifrt are replaced by it; every other use of the package is reported
	modelled := map[string]bool{"Mutex": true, "RWMutex": true, "Once": true, "Pool": true, "Map": true}
	modelledAtomic := map[string]string{"Pointer": "AtomicPointer", "Value": "AtomicValue", "Int32": "AtomicInt32", "Int64": "AtomicInt64", "Uint32": "AtomicUint32", "Uint64": "AtomicUint64",
		"Uintptr": "AtomicUintptr", "Bool": "AtomicBool"}
	importsSync, importsAtomic := false, false
	for _, imp := range f.Imports {
		if strings.Trim(imp.Path.Value, "\"") == "sync" {
			importsSync = true
		}
		if strings.Trim(imp.Path.Value, "\"") == "sync/atomic" {
			importsAtomic = true
		}
	}
	rewrote, rewroteAtomic := false, false
	ast.Inspect(f, func(n ast.Node) bool {
		sel, ok := n.(*ast.SelectorExpr)
		if !ok {
			return true
		}
		id, ok := sel.X.(*ast.Ident)
		if !ok {
			return true
		}
		pn, ok := pkg.TypesInfo.Uses[id].(*types.PkgName)
		if ok && pn.Imported().Path() == "sync/atomic" {
			if m, ok := modelledAtomic[sel.Sel.Name]; ok {
				edits = append(edits, edit{off(sel.Pos()), off(sel.End()), "verifrt." + m})
				rep.SyncModelled = append(rep.SyncModelled, pos(sel.Pos())+" atomic."+sel.Sel.Name)
				rewroteAtomic = true
			}
			// the atomic functions (atomic.AddInt64, ...) never block: they are left alone (no scheduling point there)
			return true
		}
		if !ok || pn.Imported().Path() != "sync" {
			return true
		}
		if modelled[sel.Sel.Name] {
			edits = append(edits, edit{off(sel.Pos()), off(sel.End()), "verifrt." + sel.Sel.Name})
			rep.SyncModelled = append(rep.SyncModelled, pos(sel.Pos())+" sync."+sel.Sel.Name)
			rewrote = true
		} else {
			rep.SyncUnmodel = append(rep.SyncUnmodel, pos(sel.Pos())+" sync."+sel.Sel.Name)
		}
		return true
	})
	if importsSync && rewrote {
		// keep the import used
		end := off(f.End())
		edits = append(edits, edit{end, end, "\nvar _ sync.Locker\n"})
	}
	if importsAtomic && rewroteAtomic {
		end := off(f.End())
		edits = append(edits, edit{end, end, "\nvar _ = atomic.LoadInt32\n"})
	}

	var funcStack []string
	var visit func(n ast.Node) bool
	walkBody := func(name string, body *ast.BlockStmt) {
		if body == nil {
			return
		}
		rep.Funcs++
		lb := off(body.Lbrace) + 1
		edits = append(edits, edit{lb, lb, fmt.Sprintf(" verifrt.Yield(%q);", short+"."+name)})
		funcStack = append(funcStack, name)
		ast.Inspect(body, visit)
		funcStack = funcStack[:len(funcStack)-1]
	}
	visit = func(n ast.Node) bool {
		switch n := n.(type) {
		case *ast.FuncLit:
			cur := "lit"
			if len(funcStack) > 0 {
				cur = funcStack[len(funcStack)-1] + ".func"
			}
			walkBody(cur, n.Body)
			return false
		case *ast.GoStmt:
			rep.UsesGo = append(rep.UsesGo, pos(n.Pos()))
		case *ast.SendStmt:
			rep.UsesChan = append(rep.UsesChan, pos(n.Pos()))
		case *ast.UnaryExpr:
			if n.Op == token.ARROW {
				rep.UsesChan = append(rep.UsesChan, pos(n.Pos()))
			}
		case *ast.SelectStmt:
			rep.UsesChan = append(rep.UsesChan, pos(n.Pos()))
		case *ast.ForStmt:
			rep.Loops++
			lb := off(n.Body.Lbrace) + 1
			edits = append(edits, edit{lb, lb, " verifrt.Tick();"})
		case *ast.RangeStmt:
			rep.Loops++
			lb := off(n.Body.Lbrace) + 1
			t := pkg.TypesInfo.TypeOf(n.X)
			isMap := false
			var mt *types.Map
			if t != nil {
				if m, ok := t.Underlying().(*types.Map); ok {
					isMap = true
					mt = m
				}
			}
			if _, ok := t.Underlying().(*types.Chan); ok && t != nil {
				rep.UsesChan = append(rep.UsesChan, pos(n.Pos()))
			}
			if !isMap {
				edits = append(edits, edit{lb, lb, " verifrt.Tick();"})
				break
			}
			site := pos(n.Pos())
			if len(funcStack) > 0 {
				site = funcStack[len(funcStack)-1] + "@" + site
			}
			if b, ok := mt.Key().Underlying().(*types.Basic); !ok || b.Info()&(types.IsOrdered) == 0 {
				rep.SkippedSites = append(rep.SkippedSites, site+" key type not ordered")
				edits = append(edits, edit{lb, lb, " verifrt.Tick();"})
				break
			}
			xs := text(n.X)
			if mutates(n.Body, xs, text) {
				rep.SkippedSites = append(rep.SkippedSites, site+" map mutated inside loop")
				edits = append(edits, edit{lb, lb, " verifrt.Tick();"})
				break
			}
			tok := n.Tok.String() // := or =
			var decl string
			keyName, valName := "", ""
			if n.Key != nil && text(n.Key) != "_" {
				keyName = text(n.Key)
			}
			if n.Value != nil && text(n.Value) != "_" {
				valName = text(n.Value)
			}
			switch {
			case keyName != "" && valName != "":
				decl = fmt.Sprintf("%s, %s %s verifrtKV.K, verifrtKV.V;", keyName, valName, tok)
			case keyName != "":
				decl = fmt.Sprintf("%s %s verifrtKV.K;", keyName, tok)
			case valName != "":
				decl = fmt.Sprintf("%s %s verifrtKV.V;", valName, tok)
			}
			header := fmt.Sprintf("for _, verifrtKV := range verifrt.Pairs(%q, %s) { _ = verifrtKV; %s verifrt.Tick();", site, xs, decl)
			edits = append(edits, edit{off(n.For), lb, header})
			rep.MapSites = append(rep.MapSites, site)
		case *ast.CallExpr:
			// other iteration-order sources: maps.Keys/Values/All, reflect MapRange/MapKeys
			if sel, ok := n.Fun.(*ast.SelectorExpr); ok {
				if id, ok := sel.X.(*ast.Ident); ok {
					if pn, ok := pkg.TypesInfo.Uses[id].(*types.PkgName); ok {
						p := pn.Imported().Path()
						if (p == "maps" && (sel.Sel.Name == "Keys" || sel.Sel.Name == "Values" || sel.Sel.Name == "All")) ||
							(p == "reflect" && (sel.Sel.Name == "MapRange" || sel.Sel.Name == "MapKeys")) {
							rep.SkippedSites = append(rep.SkippedSites, pos(n.Pos())+" "+p+"."+sel.Sel.Name+" (iteration order not under the seam)")
						}
					}
				}
				if sel.Sel.Name == "MapRange" || sel.Sel.Name == "MapKeys" {
					if tv := pkg.TypesInfo.TypeOf(sel.X); tv != nil && tv.String() == "reflect.Value" {
						rep.SkippedSites = append(rep.SkippedSites, pos(n.Pos())+" reflect.Value."+sel.Sel.Name+" (iteration order not under the seam)")
					}
				}
			}
		}
		return true
	}

	for _, d := range f.Decls {
		fd, ok := d.(*ast.FuncDecl)
		if !ok {
			continue
		}
		name := fd.Name.Name
		if fd.Recv != nil && len(fd.Recv.List) > 0 {
			name = strings.TrimPrefix(text(fd.Recv.List[0].Type), "*") + "." + name
		}
		walkBody(name, fd.Body)
	}
	return edits
}

// mutates reports whether body assigns to or deletes from the map expression xs.
func mutates(body *ast.BlockStmt, xs string, text func(ast.Node) string) bool {
	found := false
	ast.Inspect(body, func(n ast.Node) bool {
		switch n := n.(type) {
		case *ast.AssignStmt:
			for _, l := range n.Lhs {
				if ix, ok := l.(*ast.IndexExpr); ok && text(ix.X) == xs {
					found = true
				}
			}
		case *ast.CallExpr:
			if id, ok := n.Fun.(*ast.Ident); ok && (id.Name == "delete" || id.Name == "clear") && len(n.Args) > 0 && text(n.Args[0]) == xs {
				found = true
			}
		}
		return true
	})
	return found
}
