#!/usr/bin/env python3
"""usage: bin/mkmeta.py <round> <n1> <n2> <worktree-prefix> <before-file>
Writes seeded/<prop>-<n>/meta.json for the changes <n1> and <n2> of every property from seeded/NEEDS.json, the
result.txt of the last bin/run-seeded and the results recorded before the checks were strengthened."""
import json, os, re, sys

rnd, n1, n2, prefix, before_file = int(sys.argv[1]), int(sys.argv[2]), int(sys.argv[3]), sys.argv[4], sys.argv[5]
root = os.path.join(os.path.dirname(os.path.abspath(__file__)), '..', 'seeded')
needs = json.load(open(os.path.join(root, 'NEEDS.json')))
before = {}
for blk in re.split(r'^== ', open(before_file).read(), flags=re.M)[1:]:
    lines = blk.split('\n')
    before[lines[0].strip()] = [l.strip() for l in lines[1:] if l.strip()]
words = {1: 'one', 2: 'two', 3: 'three', 4: 'four', 5: 'five', 6: 'six', 7: 'seven', 8: 'eight'}
for p in range(1, 21):
    prop = 'C%02d' % p
    for n in (n1, n2):
        cid = '%s-%d' % (prop, n)
        d = os.path.join(root, cid)
        if not os.path.isdir(d):
            continue
        res = [l.strip() for l in open(os.path.join(d, 'result.txt')).read().split('\n') if l.strip()] if os.path.exists(os.path.join(d, 'result.txt')) else []
        own_now = any(re.match(r'%s exit=1' % prop, l) for l in res)
        others = [l.split()[0] for l in res if re.match(r'C\d+ exit=1', l) and not l.startswith(prop)]
        own_before = any(re.match(r'%s exit=1' % prop, l) for l in before.get(cid, []))
        meta = {
            'id': cid,
            'breaks_property': prop,
            'round': rnd,
            'source': 'independent sub-agent, given only the property text and a scratch worktree of /repo (round %s: told in one line each what the %d earlier changes for its property were, asked for changes different in kind from all of them)' % (words.get(rnd, str(rnd)), n1 - 1),
            'needs_to_manifest': needs.get(cid, ''),
            'confirmed_by': [
                'bin/vet-seeded %s-%s %s %d: patch applies to HEAD; go test -count=1 ./... passes with it; demo%d_test.go (TestDemo%d) fails with it and passes without it' % (prefix, prop, prop, n, n, n),
                'bin/run-seeded %s: quick check of %s on a scratch worktree with the patch applied' % (cid, prop),
            ],
            'own_check_result': res,
            'caught_by_own_check_now': own_now,
            'caught_by_own_check_before_strengthening': own_before,
        }
        if others:
            meta['caught_by_other_checks'] = others
        json.dump(meta, open(os.path.join(d, 'meta.json'), 'w'), indent=1, ensure_ascii=False)
        print(cid, 'before' if own_before else '-', 'now' if own_now else '-', ' '.join(others))
