#!/usr/bin/env python3
"""Write the go build overlay that maps the harness sources under /verif/mc into
virtual directories of the module under test (and, for the instrumented build,
adds the rewritten library files produced by tools/instr).

usage: mkoverlay.py <repo> <verif> <out.json> [<instr overlay.json>]
"""
import json, os, sys

repo, verif, out = sys.argv[1], sys.argv[2], sys.argv[3]
extra = sys.argv[4] if len(sys.argv) > 4 else None

mapping = {
    "verifrt": os.path.join(repo, "internal", "verifrt"),
    "core": os.path.join(repo, "internal", "verifmc", "core"),
    "ref": os.path.join(repo, "internal", "verifmc", "ref"),
    "props": os.path.join(repo, "internal", "verifmc", "props"),
    "sched": os.path.join(repo, "internal", "verifmc", "sched"),
    "jmc": os.path.join(repo, "cmd", "jmc"),
}
rep = {}
for sub, dst in mapping.items():
    d = os.path.join(verif, "mc", sub)
    if not os.path.isdir(d):
        continue
    for f in sorted(os.listdir(d)):
        if f.endswith(".go"):
            rep[os.path.join(dst, f)] = os.path.join(d, f)
if extra:
    rep.update(json.load(open(extra))["Replace"])
json.dump({"Replace": rep}, open(out, "w"), indent=1)
