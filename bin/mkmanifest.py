#!/usr/bin/env python3
"""Regenerate MANIFEST.json from the table below (kept in one place so that it stays valid)."""
import json, os
V = os.path.dirname(os.path.dirname(os.path.abspath(__file__)))
props = [json.loads(l) for l in open(os.path.join(V, "properties.jsonl"))]

# id -> (technique, level text, level note, design ref)
DIFF = "bounded-exhaustive grammar/derivation enumeration executed on the real code, compared point by point with a reference interpreter"
META = "bounded-exhaustive enumeration of identity-schema instantiations x documents executed on the real code; metamorphic oracle (implementation against itself)"
claimed = {
 "C06": ("explicit-state search over call histories on one compiled Expression (real code, prefix replay on fresh compilations), on the instrumented and on the pristine build; invariants on every transition; plus every ordered pair of near-identical texts compiled one after the other",
         "every sequence of up to 2 (3) Search calls over 12 documents (spare capacity with sentinels, shared sub-values, repeated documents), from cold and warmed-up states, for ~500 expressions: outcome equals a fresh one-shot Search, deep snapshots of all documents incl. hidden capacity unchanged, structural hash of the AST unchanged, earlier results unchanged",
         "trusts the reflection-based deep hash/snapshot (core/deep.go)",
         "4/C06"),
 "C07": ("stateless model checking of the real code under a controlled cooperative scheduler (yield at every function entry, loop iteration and sync/atomic operation; sync types replaced by scheduler-aware models with blocked tasks and deadlock detection; package-level state restored per execution): iterative preemption bounding (quick) / all scheduler states with state-key pruning (thorough); plus a free-running race-detector pass",
         "2 (3) goroutines calling Expression.Search / Search / Compile on a shared Expression and shared documents: every schedule with <= 2 preemptions (thorough: every reachable state for 2 goroutines, bound 3 for 3); shared-state hash (AST, documents incl. capacity, all package-level variables) unchanged after every execution and after every yield of every solo run; every call returns its solo outcome",
         "scheduling points are function entries; hardware memory ordering is not modelled; the race-detector pass is supporting (sampling) evidence",
         "4/C07"),
 "C09": ("bounded-exhaustive enumeration of integer parameters over the 64-bit range and of size families at doubling n on the tick-instrumented real code; deterministic cost oracle (loop iterations, bytes allocated)",
         "all combinations of slice/index/find/replace/split/pad integer parameters from a 16-value alphabet spanning the 64-bit range on arrays and strings of length 0,1,3,8; numeric text with exponents/coefficients up to 10^5 digits; 80 size families at n = 64..4096: iterations <= 64*size*log2(size)+512, bytes <= 4096*size+1MiB, iterations(2n) <= 8*iterations(n)",
         "work inside the standard library/decimal128 is visible only through allocation, the 8 GiB limit and the 60 s watchdog",
         "4/C09"),
 "C15": ("environment-answer search on the real code: every range over a map is a question answered by the explorer (all n! orders at every question; deviation bound 2 above the execution cap); plus pristine-build phases under Go's own randomised iteration and with near-identical expressions evaluated first",
         "for ~3700 (expression, document) pairs every vector of map-iteration orders is executed: deviations at non-enumerating sites (let, multi-select hash, merge, equality, AST walk) must not change the observation at all, deviations at enumerating sites only the order of the produced arrays",
         "the seam covers the range statements the instrumenter lists (13 today; skipped sites are reported in the evidence)",
         "4/C15"),
 "C03": ("bounded-exhaustive enumeration of byte strings, byte edits, code points as token starts, Go values x placements x expressions and nesting families executed on the real code in worker processes; crash oracle (a dead worker is an observation)",
         "all byte strings up to length 4 (5) over the scanner alphabet and the single-byte-edit neighbourhood of the corpus expressions through Compile/MustCompile/Search/Expression.Search; 84 Go values (all numeric kinds at their extremes, NaN/Inf, malformed json.Number, decimal specials, nil containers, foreign types) at 5 placements under ~700 expressions; 16 nesting families at depths 10^2..10^6 each in its own process",
         "cyclic data and pad widths of astronomic magnitude are outside the claim; the known deep-nesting stack overflow (>= 10^6 levels) is recorded in known_findings.json",
         "4/C03"),
 "C08": ("bounded-exhaustive enumeration of faults x carrier contexts x documents (and fault pairs) through the three API routes on the real code; differential vs the reference's category + cross-route/data-independence invariants",
         "every fault of the menu in every carrier context, every ordered pair of faults and every malformed string through Compile, Compile+Search and Search on every document incl. documents that make the faulty code unreachable: nil result, exactly one exported category, the category the reference names, static faults identical for every document, no static category from a compiled Expression over the valid spaces of C01/C02/C19",
         "trusts the reference's category table; multi-fault expressions accept any category present",
         "4/C08"),
 "C04": ("bounded-exhaustive enumeration of byte strings, whitespace placements, single-token edits and literal bodies given to the real Compile; differential against the reference recogniser, accepted strings evaluated against the reference on distinguishing documents",
         "all byte strings up to length 4 (5 thorough) over a 31-symbol alphabet, every token-gap whitespace placement and the complete single-token-edit neighbourhood of ~1500 valid expressions, and all sequences of literal-body fragments in the four quote syntaxes: accept/reject must match the reference grammar and accepted strings must mean what the reference says",
         "trusts the reference lexer/parser (appendix B), which abstains (UNSURE, counted) on whitespace inside [*] / .* / before a call parenthesis, let/in as identifiers, lone surrogates and control characters in quoted identifiers",
         "4/C04"),
 "C16": ("bounded-exhaustive enumeration of strings (all of a small alphabet up to length 5/6, every code point alone and between letters) x literal spellings executed on the real code; round-trip oracle (the string itself)",
         "every string up to the stated length over a 16-symbol alphabet of quotes, escapes, control characters and 1-4 byte code points is written in every spelling the grammar allows (raw string, JSON literal, quoted identifier; 11 spellings) and must evaluate to itself / select the member of that name; JSON values between backticks must keep their number text",
         "trusts the 40-line escaping routines of the harness, which follow the grammar's escape rules",
         "4/C16"),
 "C18": ("bounded-exhaustive enumeration of expression pairs x documents executed on the real code; closure oracle through the public API",
         "every (e1, e2) of the menus (all built-ins, all core constructs, empty inputs; plus every C01 expression as e1 with 10 probes) on every document: result walked for non-JSON parts, serialised and decoded, e2 searched over the live and the decoded result, both equal to `e1 | e2`",
         "trusts encoding/json as the serialiser",
         "4/C18"),
 "C11": ("bounded-exhaustive enumeration of string constructs x strings x numeric arguments on the real code; metamorphic renaming oracle (five order-preserving renamings covering every UTF-8 lead-byte class) + reference comparison on the ASCII point + structural oracle for lower/upper over every cased code point",
         "every string-handling construct on every string over {a,b,c} up to the stated length with all numeric arguments in -1..6 is evaluated as written and under two injective order-preserving renamings to multi-byte code points, in literal and document delivery; the result must rename the same way, be valid UTF-8, and the ASCII point must agree with the reference",
         "trusts the renaming harness (60 lines) and, for the differential part, the reference's string functions",
         "4/C11"),
 "C13": ("bounded-exhaustive enumeration of key sequences executed on the real code; oracle computed in the harness (unique stable order, permutation of tagged identities, extremal keys)",
         "all arrays up to length 14/16 over two keys, 6/8 over three keys, 4/5 over the ten-value spelling alphabet and complete periodic/inversion families for lengths 13..64, with number and string keys, through sort, sort_by, min, max, min_by, max_by; input arrays carry spare capacity with sentinels and are snapshotted",
         "trusts sort.SliceStable of the Go standard library as the stable-order oracle",
         "4/C13"),
 "C14": ("bounded-exhaustive enumeration of carrier configurations (all 14 Go numeric kinds, all ordered pairs of kinds) x values x expression forms on the real code; metamorphic oracle against the all-json.Number configuration",
         "for every expression form and value (pair) the number leaves are carried by every Go kind able to hold them exactly; the outcome must equal the json.Number outcome by value",
         "values are dyadic rationals; divisions with a non-dyadic quotient and size-driving/compound forms with |x| >= 256 are excluded as not exactly representable in every carrier",
         "4/C14"),
 "C02": (DIFF,
         "for every built-in every argument count and the full Cartesian product of a typed value alphabet over the argument positions (literal and document delivery; expression-reference menus incl. let-bound variables) is called and compared with the reference's value / error category",
         "trusts the per-function table of DESIGN.md appendix A as implemented in mc/ref/funcs.go; abstentions are counted in the evidence",
         "4/C02"),
 "C05": ("bounded-exhaustive enumeration of operand pairs/triples x operators x carriers executed on the real code; oracle = exact rational arithmetic (math/big)",
         "every ordered pair of the operand alphabet (coefficients x exponents x signs over the decimal128 range) through every arithmetic operator spelling and comparator, singles through unary/abs/ceil/floor/to_number, triples through sum/avg, each delivered as json.Number, literal and decimal128; exact where representable, within 1 unit of the 34th digit otherwise, error on overflow/zero division",
         "trusts math/big and the 60-line shape/rounding helper in mc/ref/funcs.go; the very top of the exponent range (dependency behaviour) is abstained",
         "4/C05"),
 "C19": (DIFF,
         "every let form of the menu (1-2 bindings, nesting, shadowing, shadow ending, use after the body, lets under projections/pipes/expression references) x binding expressions x body templates x documents compared with the reference's immutable environment chain",
         "trusts the reference interpreter's scoping rules (appendix C)",
         "4/C19"),
 "C20": ("bounded-exhaustive enumeration of value pairs/triples executed on the real code; algebraic laws on the implementation's own answer matrix + agreement with the reference's deep equality and truth rule",
         "all ordered pairs of the value alphabet through ==, !=, contains and literal spelling; reflexivity, symmetry and transitivity over the whole answer matrix (all triples); every value/pair through !, &&, ||, [?@], [?x].y against the five-falsy rule with operand identity preserved",
         "trusts the 60-line reference deepEqual/truthy; numbers delivered as json.Number only (C14 covers other kinds)",
         "4/C20"),
 "C10": ("bounded-exhaustive enumeration of operator pairs/triples x operand shapes x variable assignments on the real code; metamorphic oracle (flat vs spec-parenthesised), competing grouping cross-checked against the reference evaluator",
         "all 18x18 ordered operator pairs (each operand position varied over 9 shapes x 5 unary prefixes), all 18^3 triples and all unary/binary combinations are evaluated flat and with the implied parentheses on every assignment of the operand variables; outcomes must be equal",
         "trusts the specification's precedence table as transcribed in c10Paren (30 lines) and, for the parentheses-override part, the reference evaluator",
         "4/C10"),
 "C17": (META,
         "every instantiation of the structural identity schemata with sub-expressions from the stated menus is evaluated in both spellings on every document of the C01 alphabet and the two outcomes must be equal; no reference model is involved",
         "trusts only the harness-side post-processing (null pruning, concatenation) and the instrumentation seam (sorted member order)",
         "4/C17"),
 "C01": (DIFF + " (map-order seam fixed to sorted)",
         "every expression of the stated core sub-grammar (start x step chains, parenthesised prefixes, operators, let) is run on every JSON document of the stated alphabet and compared with the reference interpreter wherever it is determinate; exhaustive within the bounds, silent outside",
         "trusts the reference interpreter mc/ref (bound to the compliance corpus: 1024/1028 cases reproduced, 4 abstentions, 0 disagreements) and the instrumentation seam",
         "4/C01"),
 "C12": ("bounded-exhaustive enumeration of (n,start,stop,step,subject,form) executed on the real code vs the spec's slice walk; deterministic tick budget",
         "every point of the stated finite space is executed through Search and compared with the specification's slice algorithm; within the bounds the verdict is exhaustive, outside them nothing is claimed",
         "trusts the transcription of the spec's slice algorithm (Python slice.indices) and the check-time instrumentation (validated against the pristine build)",
         "4/C12"),
}
reasons = {}
# phases added in the third session (round six): appended to the level text of the check concerned
ADDED = {
 "C01": " Plus the composition closure: every construct of the core language as a template, every template inside every hole of every other (bare and parenthesised; thorough: all triples of the one-hole templates) on 25 typed documents, against the reference.",
 "C02": " Plus the composition closure over the built-in functions (every function form inside and around every other construct, functions of the element under every projection kind) on 25 typed documents, against the reference.",
 "C05": " Plus the composition closure over the arithmetic operators (every operator form inside and around every other construct), against the reference.",
 "C03": " Plus runs of one character (1-4 bytes wide, an invalid byte, blanks, escapes) of every length 1..70 and around every power of two to 65536, bare and inside 27 quoting / bracketing wrappers.",
 "C06": " Plus phase routes: Search, Compile+Search and MustCompile+Search agree on every text of the composition closure and on 21 base texts decorated with each of 36 white-space / format / control characters, one compilation per route serving all 25 documents in both orders.",
 "C07": " Exported package-level variables of the module's dependencies are part of the shared-state hash; every returned value is read again at the end of each execution; the race pass ends with 4300 different expressions evaluated sequentially and then eight goroutines evaluating 3000 further ones each.",
 "C08": " Plus phase after-a-failure: every fault inside 14 constructs that have already stored something when it strikes, followed by each of 21 probes (lets that refer to names only the failed let bound, projections, joins, merges) through both routes, against the reference.",
 "C09": " Plus phase all-texts (every string of 3 (4) scanner symbols and every sequence of up to three tokens under the iteration budget) and phase after-a-large-call (26 constructs: a three-element probe timed before and after the same construct on 2^20 elements; minimum of 31 runs, factor 50 and 200 microseconds).",
 "C10": " The fully parenthesised spelling is also compared with the reference (a rewrite that treats both spellings alike).",
 "C15": " Plus sibling members / bindings built from the same array, and phase other-document-first (one compilation, every ordered pair of 14 documents, against a fresh compilation).",
 "C16": " Plus JSON values nested 1..70 and around every power of two to 4096 deep, strings and keys made of that many structural characters, long arrays and numbers; every value also through a compiled expression on two documents.",
 "C17": " Plus identities over 8..300 members, pipes, parentheses and alternatives, and projections whose right-hand side holds further projections inside multi-selects, filters and arguments.",
 "C19": " Plus two lets side by side (in a list, under an outer let, in a projection, piped).",
 "C20": " Plus truthiness of every zero in every Go carrier and of 45 zero-computing expressions in nine contexts, and equality of operands in which the same container object occurs more than once (11 forms x all ordered pairs of values).",
}
checks = []
for p in props:
    i = p["id"]
    if i in claimed:
        t, text, note, ref = claimed[i]
        text = text + ADDED.get(i, "")
        checks.append({
            "property_id": i,
            "quick_cmd": f"bin/check {i} quick",
            "thorough_cmd": f"bin/check {i} thorough",
            "evidence_file": f"/verif/evidence/{i}.json",
            "replay_cmd_template": f"bin/check {i} --replay {{path}}",
            "engine": "jmc",
            "level_claimed": {"category": "model_checking", "text": text, "design_ref": "DESIGN.md section " + ref},
            "level_note": note,
            "technique": t,
        })
na = [{"property_id": p["id"], "reason": reasons.get(p["id"], "check not built yet (work in progress; DESIGN.md section 4 describes the planned bounded-exhaustive check)")}
      for p in props if p["id"] not in claimed]
m = {
 "version": 1,
 "setup_cmd": "bin/setup",
 "hooks": {
  "guard": "verif",
  "enable": "bin/build: tools/instr rewrites the current /repo sources into .work/instr and go build -tags verif -overlay compiles them; nothing is committed to /repo",
  "baseline_off_cmd": "cd /repo && GOFLAGS=-mod=mod go test -json -vet=off -count=1 ./...",
  "source_commits": [],
  "add_only": True,
 },
 "engines": [
  {"name": "jmc", "path": "/verif/mc", "serves_properties": sorted(claimed),
   "kind_free_text": "hand-written bounded-exhaustive explorer (Go), compiled into the module under test through go build -overlay; sharded over 16 worker processes; forms: grammar/derivation search vs reference model, call-history search, environment-answer (map order) search, controlled-scheduler interleaving search"},
  {"name": "instr", "path": "/verif/tools/instr", "serves_properties": sorted(claimed),
   "kind_free_text": "go/packages-based source instrumenter run at check time: map-range seam, yield points, loop ticks, globals registry"},
 ],
 "checks": checks,
 "not_applicable": na,
 "notes": "All checks rebuild harness and instrumentation from /repo's current working tree (bin/build). known_findings.json lists recorded and fixed defects.",
}
json.dump(m, open(os.path.join(V, "MANIFEST.json"), "w"), indent=1)
print("claimed:", sorted(claimed), "not_applicable:", [x["property_id"] for x in na])
