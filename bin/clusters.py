#!/usr/bin/env python3
"""summarise replay files of one property: group clusters by (difference kind, last two steps)"""
import json,glob,collections,sys
prop=sys.argv[1]
c=collections.Counter(); ex={}
for f in glob.glob(f'/verif/replays/{prop}-*.json'):
    d=json.load(open(f))
    sig=d['sig'].split('/')
    kind=sig[1]; shape='/'.join(sig[2:]).split(' ')
    key=(kind, ' '.join(shape[-2:]))
    c[key]+=1
    p=d['point']
    e=(p.get('expr',''),p.get('doc',''),d['expected'][:80],d['actual'][:100])
    if key not in ex or len(e[0])+len(e[1])<len(ex[key][0])+len(ex[key][1]): ex[key]=e
n=int(sys.argv[2]) if len(sys.argv)>2 else 60
for k,v in sorted(c.items(), key=lambda x:-x[1])[:n]:
    print(v,k,ex[k])
