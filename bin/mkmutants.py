#!/usr/bin/env python3
"""Generate the deliberate property-breaking changes (and the behaviour-preserving refactorings) as patches
against the CURRENT /repo tree: mutants/<prop>-<name>.diff. Each entry is a textual replacement."""
import subprocess, sys, os, json
REPO="/repo"; OUT="/verif/mutants"
E="internal/evaluator/"; P="internal/parser/"; L="internal/lexer/"
M=[
 # (property, name, file, old, new, expect) expect: "violation" or "silent"
 ("C01","flatten-keeps-nulls",E+"array.go","""					if p == nil {
						continue
					}

					r = append(r, p)
				}

				continue""","""					r = append(r, p)
				}

				continue""","violation"),
 ("C01","index-accepts-len",E+"array.go","""	} else if i >= len(a) {
		return nil
	}

	return a[i]""","""	} else if i > len(a) {
		return nil
	} else if i == len(a) {
		i = len(a) - 1
	}

	return a[i]""","violation"),
 ("C01","filter-precedence-low",P+"precedence.go","""	case lexer.FilterToken:
		return 10""","""	case lexer.FilterToken:
		return 8""","violation"),
 ("C02","pad-bytes",E+"string.go","""	n := w - utf8.RuneCountInString(s)
	if n <= 0 {
		return value, nil
	}

	var b strings.Builder

	for n > 0 {
		b.WriteString(p)""","""	n := w - len(s)
	if n <= 0 {
		return value, nil
	}

	var b strings.Builder

	for n > 0 {
		b.WriteString(p)""","violation"),
 ("C02","avg-empty-zero",E+"number.go","""	if len(a) == 0 {
		return nil, nil
	}

	var r decimal128.Decimal
	for _, v := range a {""","""	if len(a) == 0 {
		return decimal128.Decimal{}, nil
	}

	var r decimal128.Decimal
	for _, v := range a {""","violation"),
 ("C02","find-last-is-first",E+"string.go","""	r := strings.LastIndex(s[i:], p)""","""	r := strings.Index(s[i:], p)""","violation"),
 ("C03","find-between-unguarded",E+"string.go","""	if len(p) == 0 || i >= j {
		return nil, nil
	}

	r := strings.Index(s[i:j], p)""","""	if len(p) == 0 {
		return nil, nil
	}

	r := strings.Index(s[i:j], p)""","violation"),
 ("C03","invalidtype-nil-deref",E+"errors.go","""	t := "nil"
	if err.got != nil {
		t = err.got.String()
	}

	if err.want != "" {""","""	t := err.got.String()

	if err.want != "" {""","violation"),
 ("C04","trailing-comma-in-list",P+"parser.go","""		switch p.curr.Type {
		case lexer.CommaToken:
			fields = append(fields, field)

			if err := p.advance(); err != nil {
				return nil, err
			}
		case lexer.CloseSqBraceToken:""","""		switch p.curr.Type {
		case lexer.CommaToken:
			fields = append(fields, field)

			if err := p.advance(); err != nil {
				return nil, err
			}

			if p.curr.Type == lexer.CloseSqBraceToken && len(fields) > 1 {
				if err := p.advance(); err != nil {
					return nil, err
				}

				if child == nil {
					return &SelectArrayCurrentNode{Fields: fields}, nil
				}

				return &SelectArrayNode{Child: child, Fields: fields}, nil
			}
		case lexer.CloseSqBraceToken:""","violation"),
 ("C04","formfeed-is-whitespace",L+"lexer.go","""		if r != '\\t' && r != '\\n' && r != '\\r' && r != ' ' {""","""		if r != '\\t' && r != '\\n' && r != '\\r' && r != ' ' && r != '\\f' && r != '\\u00a0' {""","violation"),
 ("C05","jsonnumber-via-float",E+"number.go","""	case json.Number:
		d, err := decimal128.Parse(v.String())
		if err != nil {
			return decimal128.Decimal{}, false
		}

		return d, true""","""	case json.Number:
		if f, err := v.Float64(); err == nil && len(v) < 12 {
			return decimal128.FromFloat64(f), true
		}

		d, err := decimal128.Parse(v.String())
		if err != nil {
			return decimal128.Decimal{}, false
		}

		return d, true""","violation"),
 ("C05","multiply-no-inf-trap",E+"number.go","""	r := xd.Mul(yd)

	if r.IsInf(0) {
		return nil, ErrInfinity
	}
""","""	r := xd.Mul(yd)
""","violation"),
 ("C06","sort-in-place",E+"array.go","""	r := slices.Clone(a)

	if _, ok := a[0].(string); ok {""","""	r := a

	if _, ok := a[0].(string); ok {""","violation"),
 ("C06","prune-appends-into-input",E+"array.go","""			if va == nil {
				if i > 0 {
					r = append(r, a[:i]...)
				}

				n = true
			}""","""			if va == nil {
				r = a[:i]
				n = true
			}""","violation"),
 ("C07","global-scratch-slice",E+"array.go","""func (e *evaluator) projectArray(value any, node parser.Node, variables *variableScope) (any, error) {
	a, ok := value.([]any)
	if !ok {
		return nil, nil
	}

	r := make([]any, 0, len(a))""","""var projectScratch []any

func (e *evaluator) projectArray(value any, node parser.Node, variables *variableScope) (any, error) {
	a, ok := value.([]any)
	if !ok {
		return nil, nil
	}

	projectScratch = projectScratch[:0]
	r := projectScratch
	defer func() { projectScratch = r[:0] }()""","violation"),
 ("C07","evaluator-hoisted",E+"evaluator.go","""func Evaluate(node parser.Node, data any) (any, error) {
	e := evaluator{
		root: data,
	}

	return e.evaluate(node, data, nil)
}""","""var shared evaluator

func Evaluate(node parser.Node, data any) (any, error) {
	shared.root = data
	return shared.evaluate(node, data, nil)
}""","violation"),
 ("C08","arity-error-as-syntax","jmespath.go","""	if err, ok := err.(*parser.InvalidFunctionCallError); ok {
		return &invalidFunctionCallError{err.Function}
	}
""","""	if err, ok := err.(*parser.InvalidFunctionCallError); ok && err.Function != "" {
		return &invalidFunctionCallError{err.Function}
	}
""","violation"),
 ("C08","infinity-matches-two","errors.go","""func (err *infinityError) Is(target error) bool {
	return target == ErrNotANumber
}""","""func (err *infinityError) Is(target error) bool {
	return target == ErrNotANumber || target == ErrInvalidValue
}""","violation"),
 ("C09","slice-loops-to-stop",E+"slice.go","""		} else if stop >= l {
			stop = l
		}

		for i := 0; i < start; i++ {""","""		}

		for i := 0; i < start; i++ {""","violation"),
 ("C09","split-quadratic",E+"string.go","""	n := strings.Count(s, p)
	r := make([]any, n+1)

	i := 0
	for i < n {
		j := strings.Index(s, p)""","""	n := strings.Count(s, p)
	r := make([]any, n+1)

	i := 0
	for i < n {
		for k := 0; k < strings.Count(s, p); k++ {
			_ = k
		}
		j := strings.Index(s, p)""","silent"),
 ("C10","and-or-swapped",P+"precedence.go","""	case lexer.OrToken:
		return 3
	case lexer.AndToken:
		return 4""","""	case lexer.OrToken:
		return 4
	case lexer.AndToken:
		return 3""","violation"),
 ("C10","minus-right-assoc",P+"parser.go","""		case lexer.SubtractToken:
			if err := p.advance(); err != nil {
				return nil, err
			}

			right, err := p.expression(newPrec)""","""		case lexer.SubtractToken:
			if err := p.advance(); err != nil {
				return nil, err
			}

			right, err := p.expression(newPrec - 1)""","violation"),
 ("C11","reverse-bytes",E+"functions.go","""		for len(s) > 0 {
			r, sz := utf8.DecodeLastRuneInString(s)
			b.WriteRune(r)
			s = s[:len(s)-sz]
		}""","""		for len(s) > 0 {
			b.WriteByte(s[len(s)-1])
			s = s[:len(s)-1]
		}""","violation"),
 ("C11","length-bytes-when-long",E+"functions.go","""	case string:
		return int64(utf8.RuneCountInString(v)), nil""","""	case string:
		if len(v) > 8 {
			return int64(len(v)), nil
		}

		return int64(utf8.RuneCountInString(v)), nil""","violation"),
 ("C12","neg-step-stop-off-by-one",E+"slice.go","""			} else if stop >= l {
				return []any{}
			}

			if start <= stop {
				return []any{}
			}""","""			} else if stop > l {
				return []any{}
			}

			if start <= stop {
				return []any{}
			}""","silent"),
 ("C12","drop-rounding",E+"slice.go","""			c := stop - start
			n = c / step
			if c%step > 0 {
				n++
			}
		} else {
			if start < 0 {
				if start < -l {
					return \"\"""","""			c := stop - start
			n = c / step
			if c%step > 1 {
				n++
			}
		} else {
			if start < 0 {
				if start < -l {
					return \"\"""","violation"),
 ("C13","sort-by-unstable",E+"array.go","""	r := sortByNumber{
		items: slices.Clone(a),
		by:    by,
	}

	sort.Stable(r)""","""	r := sortByNumber{
		items: slices.Clone(a),
		by:    by,
	}

	sort.Sort(r)""","violation"),
 ("C13","max-by-ge",E+"array.go","""		if d.Cmp(numMax).Greater() {
			numMax = d
			index = i + 1
		}""","""		if d.Cmp(numMax).GreaterOrEqual() {
			numMax = d
			index = i + 1
		}""","silent"),
 ("C14","istrue-missing-uint16",E+"compare.go","""		uint8,
		uint16,
		uint32,""","""		uint8,
		uint32,""","silent"),
 ("C14","toint-float32-via-int32",E+"number.go","""		if float64(v) != math.Floor(float64(v)) {
			return 0, true, false
		}

		return int(v), true, true
	case float64:""","""		if float64(v) != math.Floor(float64(v)) {
			return 0, true, false
		}

		return int(int8(v)), true, true
	case float64:""","violation"),
 ("C14","typename-without-int8",E+"functions.go","""		float64,
		int8,
		int16,
		int32,
		int64,
		int,
		uint8,
		uint16,
		uint32,
		uint64,
		uint:
		return "number", nil""","""		float64,
		int16,
		int32,
		int64,
		int,
		uint8,
		uint16,
		uint32,
		uint64,
		uint:
		return "number", nil""","violation"),
 ("C15","let-sees-earlier-bindings",E+"evaluator.go","""		results := make(map[string]any, len(node.Variables))
		for name, node := range node.Variables {
			result, err := e.evaluate(node, current, variables)""","""		results := make(map[string]any, len(node.Variables))
		for name, node := range node.Variables {
			result, err := e.evaluate(node, current, variables.new(results))""","violation"),
 ("C15","merge-first-writer-wins",E+"evaluator.go","""			for k, v := range m {
				result[k] = v
			}""","""			for k, v := range m {
				if _, dup := result[k]; dup && len(result) > len(m) {
					continue
				}
				result[k] = v
			}""","violation"),
 ("C16","raw-string-unescapes-n",P+"parser.go","""		case '\\\\':
			b.WriteByte('\\\\')
		default:
			b.WriteByte('\\\\')
			b.WriteByte(v[0])
		}

		v = v[1:]""","""		case '\\\\':
			b.WriteByte('\\\\')
		case 'n':
			b.WriteByte('\\n')
		default:
			b.WriteByte('\\\\')
			b.WriteByte(v[0])
		}

		v = v[1:]""","violation"),
 ("C16","number-literal-via-float",P+"parser.go","""	case json.Number:
		return &NumberNode{
			Value: a,
		}, nil
	case nil:""","""	case json.Number:
		if f, err := a.Float64(); err == nil {
			a = json.Number(strconv.FormatFloat(f, 'g', -1, 64))
		}

		return &NumberNode{
			Value: a,
		}, nil
	case nil:""","violation"),
 ("C17","select-single-skips-null-check",E+"evaluator.go","""	case *parser.SelectArraySingleNode:
		child, err := e.evaluate(node.Child, current, variables)
		if err != nil {
			return nil, err
		}

		if child == nil {
			return nil, nil
		}
""","""	case *parser.SelectArraySingleNode:
		child, err := e.evaluate(node.Child, current, variables)
		if err != nil {
			return nil, err
		}
""","violation"),
 ("C17","project-current-keeps-nulls",E+"evaluator.go","""	case *parser.ProjectArrayCurrentNode:
		return e.projectArray(current, node.Child, variables)""","""	case *parser.ProjectArrayCurrentNode:
		return e.mapArray(current, node.Child, variables)""","violation"),
 ("C18","keys-typed-slice",E+"object.go","""	r := make([]any, len(m))
	i := 0
	for k := range m {
		r[i] = k
		i++
	}

	return r, nil""","""	r := make([]string, len(m))
	i := 0
	for k := range m {
		r[i] = k
		i++
	}

	return r, nil""","violation"),
 ("C18","length-returns-int",E+"functions.go","""	case map[string]any:
		return int64(len(v)), nil""","""	case map[string]any:
		return len(v), nil""","silent"),
 ("C19","bindings-in-child-scope",E+"evaluator.go","""		return e.evaluate(node.Child, current, variables.new(results))
	case *parser.DivideNode:""","""		if variables != nil {
			for k, v := range results {
				variables.variables[k] = v
			}

			return e.evaluate(node.Child, current, variables)
		}

		return e.evaluate(node.Child, current, variables.new(results))
	case *parser.DivideNode:""","violation"),
 ("C19","map-loses-scope",E+"evaluator.go","""		return e.mapArray(arg2, node.Arguments[0], variables)""","""		return e.mapArray(arg2, node.Arguments[0], nil)""","violation"),
 ("C20","objects-equal-by-length",E+"compare.go","""				if !equal(xi, yi) {
					return false
				}
			}

			return true
		}
	}

	return false
}""","""				if !equal(xi, yi) && len(x) < 2 {
					return false
				}
			}

			return true
		}
	}

	return false
}""","violation"),
 ("C20","zero-is-falsy",E+"compare.go","""	case json.Number:
		return len(v) > 0""","""	case json.Number:
		return len(v) > 0 && v != "0\"""","violation"),
 ("C20","and-returns-bool",E+"evaluator.go","""		if !isTrue(left) {
			return left, nil
		}

		return e.evaluate(node.Right, current, variables)
	case *parser.ArrayNode:""","""		if !isTrue(left) {
			return false, nil
		}

		return e.evaluate(node.Right, current, variables)
	case *parser.ArrayNode:""","violation"),
]
def run(*a, **k): return subprocess.run(a, capture_output=True, text=True, **k)
assert run("git","-C",REPO,"status","--porcelain").stdout.strip()=="", "/repo not clean"
index=[]
for prop,name,f,old,new,expect in M:
    p=os.path.join(REPO,f); s=open(p).read()
    if s.count(old)!=1:
        print("SKIP",prop,name,"anchor found",s.count(old),"times"); continue
    open(p,"w").write(s.replace(old,new))
    d=run("git","-C",REPO,"diff").stdout
    run("git","-C",REPO,"checkout","--",".")
    fn=f"{prop}-{name}.diff"
    open(os.path.join(OUT,fn),"w").write(d)
    index.append({"property":prop,"name":name,"patch":fn,"expect":expect})
json.dump(index,open(os.path.join(OUT,"index.json"),"w"),indent=1)
print(len(index),"mutants written")
