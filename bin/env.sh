# sourced by bin/setup, bin/build and bin/check
export VERIF="${VERIF:-/verif}"
export REPO="${REPO:-/repo}"
export WORK="${VERIF_WORK:-$VERIF/.work}"
export VERIF_WORK="$WORK"
export GOFLAGS=-mod=mod
export GOPROXY=off
unset GOSUMDB
mkdir -p "$WORK/bin" "$WORK/tmp"

# pick a toolchain that can build the module (go >= 1.24): the cached go1.24.0 through
# GOTOOLCHAIN=auto when available, else the local go1.26.
pick_go() {
	if (cd "$REPO" && GOTOOLCHAIN=auto go version >/dev/null 2>&1); then
		export GOTOOLCHAIN=auto
		GO=go
	elif command -v go1.26 >/dev/null 2>&1; then
		export GOTOOLCHAIN=local
		GO=go1.26
	else
		export GOTOOLCHAIN=local
		GO=go
	fi
	export GO
}
pick_go
