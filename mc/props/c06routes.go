package props

import (
	"fmt"

	"github.com/woodsbury/jmespath/internal/verifmc/core"
)

// C06, phase "routes": the three ways of evaluating a text - Search(text, d), Compile(text) followed by Search(d), and
// MustCompile(text) followed by Search(d) - agree on every text of the menu and on every document: the same value, or
// a failure of the same category; MustCompile panics exactly when Compile fails. The menu is the composition closure
// of the language (every construct inside every construct, all three kinds) and a family of texts decorated with every
// Unicode white-space, format and control character before, after and inside them (a route that trims, normalises,
// caches or rewrites what the others do not).

var c06RouteBases = []string{"a", "a.b", "a[0]", "'x'", "`1`", "length(@)", "a || b", "@", "*", "[]", "a[*].b", "sort_by(c, &a)[-1]", "sort_by(c, &a)[0]", "max_by(c, &a)", "{k: `1`, l: 'two'}", "[`1`, 'two']", "`[1,\"x\"]`", "'it\\'s'", "\"a\"", "$", "let $v = a in $v"}

var c06RouteChars = []string{"\x09", "\x0a", "\x0d", " ", "\x0b", "\x0c", "\u0085", "\u00a0", "\u1680", "\u2000", "\u2001", "\u2002", "\u2003", "\u2004", "\u2005", "\u2006", "\u2007", "\u2008", "\u2009", "\u200a", "\u2028", "\u2029", "\u202f", "\u205f", "\u3000", "\ufeff", "\u200b", "\u200e", "\x00", "\x01", "\x1f", "\x7f", "\u00ad", ";", "\\", "#"}

func c06RouteTexts(thorough bool) []composeExpr {
	var out []composeExpr
	seen := map[string]bool{}
	add := func(t, shape string) {
		if !seen[t] {
			seen[t] = true
			out = append(out, composeExpr{Text: t, Shape: shape})
		}
	}
	for _, b := range c06RouteBases {
		add(b, "base")
		for _, ch := range c06RouteChars {
			add(ch+b, "decorated/leading")
			add(b+ch, "decorated/trailing")
			add(ch+b+ch, "decorated/both")
			add(ch+ch+b, "decorated/leading-twice")
			for i := 1; i < len(b); i++ {
				if b[i] == '.' || b[i] == '[' || b[i] == '(' || b[i] == ' ' || b[i] == ',' {
					add(b[:i]+ch+b[i:], "decorated/inside")
					break
				}
			}
		}
	}
	add("", "empty")
	for kind := 0; kind < 3; kind++ {
		for i, e := range composeExpressions(false, kind) {
			// quick: all core expressions, every third of the others (the thorough tier takes all)
			if thorough || kind == 0 || i%3 == 0 {
				add(e.Text, "compose/"+e.Shape)
			}
		}
	}
	return out
}

func c06RunRoutes(r *core.Run) {
	texts := c06RouteTexts(r.Thorough())
	docs := append([]doc{}, composeDocs()...)
	r.Bound("route_texts", len(texts))
	r.Bound("route_documents", len(docs))
	r.Bound("route_decoration_characters", len(c06RouteChars))
	for i, t := range texts {
		if !r.Mine(i) {
			continue
		}
		if r.Expired() {
			return
		}
		r.Add("states", 1)
		r.Begin(map[string]any{"expr": t.Text, "doc": "all documents, in both orders"})
		if v := c06RouteText(r, t.Text, t.Shape, docs); v != nil {
			r.Violate(v)
		}
	}
}

// c06RouteText: one compilation per route serves every document (first in order, then - compiled afresh - in reverse order):
// a compiled expression that remembers something of an earlier document disagrees with the one-shot search sooner or later.
func c06RouteText(r *core.Run, text, shape string, docs []doc) *core.Violation {
	mk := func(kind, d, exp, act string) *core.Violation {
		return &core.Violation{Sig: "C06/routes/" + kind + "/" + shape, Desc: fmt.Sprintf("Search(%q, %s) vs Compile(...).Search vs MustCompile(...).Search (one compilation, every document in turn)", text, d),
			Point: map[string]any{"expr": text, "doc": d, "shape": shape, "routes": true}, Expected: exp, Actual: act}
	}
	for pass := 0; pass < 2; pass++ {
		e, co := core.Compile(text)
		me, panicked, _ := core.MustCompile(text)
		r.Add("evaluations", 2)
		if panicked != (e == nil) {
			return mk("mustcompile-disagrees-with-compile", "-", fmt.Sprintf("MustCompile panics = %v (Compile failed = %v)", e == nil, e == nil), fmt.Sprintf("panicked = %v", panicked))
		}
		for k := range docs {
			d := docs[k]
			if pass == 1 {
				d = docs[len(docs)-1-k]
			}
			oS := core.Search(text, d.Raw)
			r.Eval(oS)
			r.Add("transitions", 1)
			oC := co
			if e != nil {
				oC = core.ExprSearch(e, d.Raw)
			}
			if oS.Key() != oC.Key() {
				return mk("search-vs-compiled", d.Text, "Search: "+oS.Short(), "Compile + Expression.Search: "+oC.Short())
			}
			if me != nil {
				if oM := core.ExprSearch(me, d.Raw); oM.Key() != oC.Key() {
					return mk("mustcompile-vs-compiled", d.Text, "Compile + Expression.Search: "+oC.Short(), "MustCompile + Expression.Search: "+oM.Short())
				}
			}
			if e == nil {
				break // a text that does not compile fails the same way whatever the document (C08 checks that)
			}
		}
	}
	return nil
}
