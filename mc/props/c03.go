package props

import (
	"encoding/json"
	"fmt"
	"math"
	"strconv"
	"strings"
	"unicode"

	"github.com/woodsbury/decimal128"
	"github.com/woodsbury/jmespath/internal/verifmc/core"
	"github.com/woodsbury/jmespath/internal/verifmc/ref"
)

// C03 — no expression and no data value can make the library panic or crash
// (form G over bytes and Go values; crash oracle). Pristine build, workers are
// processes: a dead worker is an observation about the input it was running.

func init() {
	core.Register(&core.Check{
		ID:    "C03",
		Title: "no expression and no data value can make the library panic or crash",
		Rule: "(1) every byte string up to the stated length over the 31-symbol scanner alphabet through Compile, MustCompile and Search on six documents; (2) the complete single-byte-edit neighbourhood (delete, insert each symbol, swap, truncate) of every corpus expression and of a cross-section of the C01/C02 expressions; " +
			"(3) every value of the Go-value alphabet (nil, bool, strings incl. invalid UTF-8, every numeric kind at its extremes, NaN/Inf floats, json.Number with arbitrary text, decimal NaN/Inf, slices with spare capacity, nil slices and maps, typed nil pointers, structs, typed slices and maps, channels, functions, pointers) " +
			"at the top, as a member, as an element and as a function argument of every expression of the C02 menu and a cross-section of C01; (4) the nesting families at depths 10^2..10^6, each in a process of its own; " +
			"the call must return, a failure must carry a nil result and a formattable error, MustCompile must panic exactly when Compile fails; non-trivial = a call that returns a value; distinct_nontrivial counts distinct values",
		Phases: []core.Phase{
			{Name: "bytes", Build: "pristine", Fn: c03RunBytes, CrashIsViolation: true},
			{Name: "values", Build: "pristine", Fn: c03RunValues, CrashIsViolation: true},
			{Name: "calls", Build: "pristine", Fn: c03RunCalls, CrashIsViolation: true},
			{Name: "integer-extremes", Build: "pristine", Fn: c03RunExtremes, CrashIsViolation: true},
			{Name: "long-texts", Build: "pristine", Fn: c03RunLong, CrashIsViolation: true},
			{Name: "nesting", Build: "pristine", Fn: c03RunNesting, CrashIsViolation: true, ProcsFn: func(tier string) int { return len(c03NestingItems(tier == "thorough")) }},
		},
		Judge: c03Judge,
		Assumptions: []string{
			"data values are trees (cyclic Go values are outside the stated quantifier)",
			"worker address space is limited to 8 GiB; a worker killed by the limit is reported as a violation for the input it was running",
		},
	})
}

func c03Outcome(o core.Obs) string {
	switch {
	case o.Kind == "panic" || o.Kind == "budget":
		return o.Kind
	case o.Kind == "err" && o.FmtFail != "":
		return "error-unformattable"
	case o.Kind == "err" && o.BothSet:
		return "result-beside-error"
	case o.Kind == "err" && len(o.Cats) != 1:
		return fmt.Sprintf("error-matches-%d-categories", len(o.Cats))
	}
	return ""
}

// c03Expr runs one expression through all three entry points on the documents.
func c03Expr(r *core.Run, expr, family string, docs []any, docTexts []string) *core.Violation {
	mk := func(kind, route, d string, o core.Obs) *core.Violation {
		return &core.Violation{Sig: "C03/" + kind + "/" + family + "/" + route + "/" + ref.TailShape(expr, 2), Desc: fmt.Sprintf("%s(%q, %s)", route, expr, d),
			Point: map[string]any{"expr": expr, "doc": d, "family": family, "kind": "expr"}, Expected: "returns a result or an error", Actual: o.Short()}
	}
	e, co := core.Compile(expr)
	r.Add("evaluations", 1)
	if k := c03Outcome(co); k != "" {
		return mk(k, "Compile", "-", co)
	}
	_, panicked, msg := core.MustCompile(expr)
	if panicked != (e == nil) {
		return mk("mustcompile-disagrees-with-compile", "MustCompile", "-", core.Obs{Kind: "ok", Val: fmt.Sprintf("panicked=%v %s", panicked, msg)})
	}
	for i, d := range docs {
		o := core.Search(expr, d)
		r.Eval(o)
		r.Add("transitions", 1)
		if k := c03Outcome(o); k != "" {
			return mk(k, "Search", docTexts[i], o)
		}
		if e != nil {
			o2 := core.ExprSearch(e, d)
			r.Add("evaluations", 1)
			if k := c03Outcome(o2); k != "" {
				return mk(k, "Expression.Search", docTexts[i], o2)
			}
		}
	}
	return nil
}

func c03ByteDocs() ([]any, []string) {
	var raws []any
	var texts []string
	for _, d := range c04Docs {
		raws = append(raws, d.Raw)
		texts = append(texts, d.Text)
	}
	return raws, texts
}

// c03CodePoints: every Unicode scalar value (quick: every code point below U+3000 and the first and last 64 of every
// 4096-block) as the first character of a token, in five positions.
func c03CodePoints(r *core.Run) {
	raws, texts := c03ByteDocs()
	n := 0
	for c := rune(0x80); c <= unicode.MaxRune; c++ {
		if c >= 0xD800 && c <= 0xDFFF {
			continue
		}
		if !r.Thorough() && c >= 0x3000 && c&0xFFF >= 64 && c&0xFFF < 0xFC0 {
			continue
		}
		n++
		if !r.Mine(n / 64) {
			continue
		}
		ch := string(c)
		for _, e := range []string{ch, "a." + ch, "a " + ch + " b", "[" + ch + "]", ch + "(a)", "a" + ch, "$" + ch, "{" + ch + ": a}", "a[?" + ch + "]"} {
			r.Add("states", 1)
			r.Begin(map[string]any{"expr": e, "doc": ""})
			if v := c03Expr(r, e, "code-points", raws[:1], texts[:1]); v != nil {
				r.Violate(v)
			}
		}
	}
}

func c03RunBytes(r *core.Run) {
	c03CodePoints(r)
	L := 4
	if r.Thorough() {
		L = 5
	}
	raws, texts := c03ByteDocs()
	r.Bound("alphabet", c04Alphabet)
	r.Bound("max_length", L)
	n := 0
	var rec func(s string, l int)
	rec = func(s string, l int) {
		r.Add("states", 1)
		r.Begin(map[string]any{"expr": s, "doc": ""})
		if v := c03Expr(r, s, "all-strings", raws, texts); v != nil {
			r.Violate(v)
		}
		n++
		if n%30011 == 0 {
			r.Sample(func() any { return map[string]any{"bytes": s} })
		}
		if l == L {
			return
		}
		for _, ch := range c04Alphabet {
			rec(s+ch, l+1)
		}
	}
	k := 0
	for _, a := range c04Alphabet {
		for _, b := range c04Alphabet {
			k++
			if !r.Mine(k) || r.Expired() {
				continue
			}
			if b == c04Alphabet[0] {
				rec(a, 1) // the one-symbol string, once
			}
			rec(a+b, 2)
		}
	}
	// single-byte-edit neighbourhoods
	var bases []string
	if cases, err := loadCorpus(); err == nil {
		seen := map[string]bool{}
		for _, c := range cases {
			if !seen[c.Expr] && len(c.Expr) <= 60 {
				seen[c.Expr] = true
				bases = append(bases, c.Expr)
			}
		}
	}
	for i, e := range c01Expressions(false) {
		if i%101 == 0 {
			bases = append(bases, e.Text)
		}
	}
	for _, e := range c18First {
		bases = append(bases, e)
	}
	r.Bound("edit_bases", len(bases))
	step := 3
	if r.Thorough() {
		step = 1
	}
	// literal bodies: every sequence of escape-like fragments inside the quote syntaxes
	frags := []string{`\\`, "'", `"`, "`", "a", "u", "/", "n", "0041", "D83D", "DE00", "d83d", "é", "\n", "{", "[", ":", ",", "1", "\\u", "\\ud83d", "\\ude0"}
	maxF := 3
	if r.Thorough() {
		maxF = 4
	}
	wraps := [][2]string{{"'", "'"}, {`"`, `"`}, {"`", "`"}, {"`\"", "\"`"}, {"a.\"", "\""}, {"{\"", "\": a}"}}
	m := 0
	var body func(s string, l int)
	body = func(s string, l int) {
		m++
		if r.Mine(m) && !r.Expired() {
			for _, w := range wraps {
				e := w[0] + s + w[1]
				r.Add("states", 1)
				r.Begin(map[string]any{"expr": e, "doc": ""})
				if v := c03Expr(r, e, "literal-bodies", raws[:1], texts[:1]); v != nil {
					r.Violate(v)
				}
			}
		}
		if l == maxF {
			return
		}
		for _, f := range frags {
			body(s+f, l+1)
		}
	}
	body("", 0)
	for bi, e := range bases {
		if !r.Mine(bi) {
			continue
		}
		if r.Expired() {
			return
		}
		try := func(s string) {
			r.Add("states", 1)
			r.Begin(map[string]any{"expr": s, "doc": ""})
			if v := c03Expr(r, s, "byte-edits", raws[:2], texts[:2]); v != nil {
				r.Violate(v)
			}
		}
		try(e) // the unedited expression itself
		for i := 0; i <= len(e); i++ {
			if i < len(e) {
				try(e[:i] + e[i+1:]) // delete
				try(e[:i])           // truncate
				if i+1 < len(e) {
					try(e[:i] + string(e[i+1]) + string(e[i]) + e[i+2:]) // swap
				}
			}
			if (i+bi)%step == 0 {
				for _, ch := range c04Alphabet {
					try(e[:i] + ch + e[i:]) // insert
				}
			}
		}
	}
}

// c03RunLong: runs of one character (one to four bytes wide, an invalid byte, blanks) of every length from 1 to 70 and around
// every power of two up to 65536, bare and inside every quoting construct, in valid and in invalid expressions: size
// thresholds of scanners, decoders and of the error messages that quote the expression.
func c03RunLong(r *core.Run) {
	raws, texts := c03ByteDocs()
	var sizes []int
	for n := 1; n <= 70; n++ {
		sizes = append(sizes, n)
	}
	for _, n := range []int{100, 127, 128, 129, 200, 255, 256, 257, 300, 511, 512, 513, 1000, 1023, 1024, 1025, 4095, 4096, 4097, 65535, 65536, 65537} {
		sizes = append(sizes, n)
	}
	chars := []string{"a", "é", "漢", "😀", "\xff", "\n", " ", "ab", "a漢", "\\u00e9", "1"}
	wraps := [][2]string{{"", ""}, {"'", "'"}, {`"`, `"`}, {"`\"", "\"`"}, {"a.", ""}, {"'", ""}, {`"`, ""}, {"`", ""}, {"[", ""}, {"a ", " b"}, {"foo(", ")"}, {"$", ""}, {`a."`, `".b`},
		{`{"`, `": a}`}, {"a[?b == '", "']"}, {"", " ||"}, {"", ")"}, {"(", ""}, {"a.b.c.d == ", " !"}, {"join('", "', a) )"}, {"`[\"", "\"]`"}, {"`{\"", "\": 1}`"}, {"a[", "]"}, {"a[:", "]"}, {"let $", " = a in $x"}, {"&", ""}, {"abs(`", "`)"}}
	r.Bound("long_text_sizes", len(sizes))
	r.Bound("long_text_characters", chars)
	r.Bound("long_text_wrappers", len(wraps))
	k := 0
	for _, n := range sizes {
		for _, ch := range chars {
			k++
			if !r.Mine(k) || r.Expired() {
				continue
			}
			body := strings.Repeat(ch, n)
			for _, w := range wraps {
				e := w[0] + body + w[1]
				r.Add("states", 1)
				r.Begin(map[string]any{"expr": trunc(e, 120), "doc": "", "long": true})
				if v := c03Expr(r, e, "long-texts", raws[:1], texts[:1]); v != nil {
					v.Point = map[string]any{"kind": "long", "ch": ch, "n": n, "pre": w[0], "suf": w[1], "expr": trunc(e, 120), "doc": ""}
					r.Violate(v)
				}
			}
		}
	}
}

// ---------------------------------------------------------------------------
// Go values

type point struct{ X, Y int }

type c03Value struct {
	Name string
	V    any
}

func c03Values() []c03Value {
	var nilSlice []any
	var nilMap map[string]any
	var nilPtr *int
	var nilIface fmt.Stringer
	seven := 7
	spare := make([]any, 2, 5)
	spare[0], spare[1] = json.Number("1"), "x"
	vals := []c03Value{
		{"nil", nil}, {"true", true}, {"false", false}, {"empty-string", ""}, {"string", "aé€"}, {"invalid-utf8-ff", "\xff"}, {"invalid-utf8-truncated", "a\xc3"}, {"nul-string", "\x00"},
		{"int-min", math.MinInt}, {"int-max", math.MaxInt}, {"int-0", 0}, {"int--1", -1}, {"int8-min", int8(math.MinInt8)}, {"int8-max", int8(math.MaxInt8)}, {"int16-min", int16(math.MinInt16)},
		{"int32-min", int32(math.MinInt32)}, {"int32-max", int32(math.MaxInt32)}, {"int64-min", int64(math.MinInt64)}, {"int64-max", int64(math.MaxInt64)}, {"int64-2", int64(2)},
		{"uint-max", uint(math.MaxUint)}, {"uint8-max", uint8(math.MaxUint8)}, {"uint16-max", uint16(math.MaxUint16)}, {"uint32-max", uint32(math.MaxUint32)}, {"uint64-max", uint64(math.MaxUint64)}, {"uint64-2", uint64(2)},
		{"float64-nan", math.NaN()}, {"float64-inf", math.Inf(1)}, {"float64--inf", math.Inf(-1)}, {"float64--0", math.Copysign(0, -1)}, {"float64-2^63", float64(1 << 63)}, {"float64-2^64", math.Pow(2, 64)},
		{"float64-max", math.MaxFloat64}, {"float64-tiny", math.SmallestNonzeroFloat64}, {"float64-1.5", 1.5}, {"float64-2", 2.0}, {"float32-nan", float32(math.NaN())}, {"float32-inf", float32(math.Inf(1))}, {"float32-2", float32(2)},
		{"number-empty", json.Number("")}, {"number-abc", json.Number("abc")}, {"number-minus", json.Number("-")}, {"number-1e99999", json.Number("1e99999")}, {"number-0x1", json.Number("0x1")},
		{"number-1.0", json.Number("1.0")}, {"number-1e2", json.Number("1e2")}, {"number-inf", json.Number("Infinity")}, {"number-nan", json.Number("NaN")}, {"number-huge", json.Number(strings.Repeat("9", 400))},
		{"number-2", json.Number("2")}, {"number-1e-99999", json.Number("1e-99999")},
		{"decimal-nan", decimal128.NaN()}, {"decimal-inf", decimal128.Inf(1)}, {"decimal--inf", decimal128.Inf(-1)}, {"decimal-0", decimal128.Decimal{}}, {"decimal-1.5", decimal128.MustParse("1.5")},
		{"decimal-max", decimal128.MustParse("9.999999999999999999999999999999999e6144")}, {"decimal-2", decimal128.MustParse("2")}, {"decimal--0", decimal128.MustParse("-0")},
		{"slice-spare-capacity", spare}, {"nil-slice", nilSlice}, {"nil-map", nilMap}, {"empty-slice", []any{}}, {"empty-map", map[string]any{}},
		{"nil-pointer", nilPtr}, {"nil-interface", nilIface}, {"pointer", &seven}, {"struct", point{1, 2}}, {"struct-pointer", &point{1, 2}}, {"string-slice", []string{"a", "b"}}, {"int-slice", []int{1, 2}},
		{"typed-map", map[string]int{"a": 1}}, {"iface-map", map[any]any{"a": 1}}, {"channel", make(chan int)}, {"function", func() {}}, {"bytes", []byte("ab")}, {"rune", 'x'}, {"complex", complex(1, 2)},
		{"array", [2]any{1, 2}}, {"uintptr", uintptr(1)}, {"error", fmt.Errorf("boom")}, {"json-raw", json.RawMessage(`{"a":1}`)},
	}
	return vals
}

// c03Placements puts v into documents: at the top, as members, as an element, nested.
func c03Placements(v any) []any {
	return []any{
		v,
		map[string]any{"a": v, "b": v, "x0": v, "x1": v, "x2": v, "x3": v, "arr": []any{v, v}, "s": "a,b", "n": json.Number("2"), "l": []any{v, json.Number("1"), "a"}},
		[]any{v, json.Number("1"), v},
		map[string]any{"a": []any{v}, "b": map[string]any{"a": v}, "x0": "ab", "x1": v, "x2": v, "x3": v, "arr": []any{map[string]any{"a": v, "k": v}}},
		map[string]any{"a": []any{map[string]any{"b": v}, map[string]any{"b": json.Number("1")}}, "x0": []any{v, v}, "x1": "a", "x2": json.Number("1"), "x3": v},
	}
}

func c03ValueExprs(thorough bool) []string {
	seen := map[string]bool{}
	var out []string
	add := func(s string) {
		if !seen[s] {
			seen[s] = true
			out = append(out, s)
		}
	}
	// every function with its arguments taken from the document, all argument counts that compile
	for _, name := range ref.FunctionNames() {
		sig := ref.Signatures[name]
		max := sig.Max
		if max < 0 {
			max = 3
		}
		for n := sig.Min; n <= max; n++ {
			args := make([]string, n)
			for i := range args {
				args[i] = fmt.Sprintf("x%d", i)
				if sig.ExprAt(i) {
					args[i] = "&a"
				}
			}
			add(name + "(" + strings.Join(args, ", ") + ")")
			// with one well-typed string/number argument in the other positions
			for i := range args {
				if sig.ExprAt(i) {
					continue
				}
				alt := append([]string{}, args...)
				for j := range alt {
					if j != i && !sig.ExprAt(j) {
						alt[j] = []string{"s", "n", "'a'", "`1`"}[j%4]
					}
				}
				add(name + "(" + strings.Join(alt, ", ") + ")")
				// ... and with a well-typed object or array beside it
				for _, lit := range []string{"`{\"k\":1}`", "`[\"b\",\"a\"]`", "`[[\"k\",1]]`"} {
					alt2 := append([]string{}, args...)
					for j := range alt2 {
						if j != i && !sig.ExprAt(j) {
							alt2[j] = lit
						}
					}
					add(name + "(" + strings.Join(alt2, ", ") + ")")
				}
			}
			add(name + "(" + strings.Repeat("@, ", n-1) + "@)")
		}
	}
	for _, e := range c18First {
		add(e)
	}
	for _, e := range c18Second {
		add(e)
	}
	for _, op := range []string{"+", "-", "*", "/", "//", "%", "==", "!=", "<", "<=", ">", ">=", "&&", "||"} {
		add("a " + op + " b")
		add("@ " + op + " `1`")
		add("`1` " + op + " a")
	}
	for _, e := range []string{"-a", "+a", "!a", "a[0]", "a[1:]", "a[::-1]", "a[::2]", "a[*]", "a[]", "a.*", "*", "[*]", "[]", "a[?@]", "a[?b]", "a[?@ == `1`]", "[a, b]", "{k: a}", "a.b", "a | b", "@", "$",
		"let $v = a in [$v, $v == b]", "let $v = a, $v = b in $v", "let $v = a, $w = b, $v = `1` in [$v, $w]", "let $v = a in let $v = b, $v = $v in $v", "{k: a, k: b}", "{k: a, k: b, k: a}.k", "merge(`{}`, `{}`)", "to_string(merge(a, b))",
		"reverse(a)", "reverse(s)", "reverse(x0)", "sort_by(arr, &sort_by(arr, &a)[0].a)", "lower(a)", "upper(a)", "trim(a)", "trim_left(a)", "trim_right(a)", "trim_right(a, '')", "split(a, '')", "a[::-1]", "a[::2]", "pad_left(a, `3`)", "sort_by(arr, &a)", "max_by(arr, &k)", "group_by(arr, &a)", "map(&a, arr)", "arr[*].a", "arr[?a]", "to_string(@)", "to_string(a)", "type(a)", "to_number(a)", "a[0:1:1]", "[0]", "[-1]", "[1:]",
		"contains(arr, a)", "a == a", "[a] == [b]", "{k: a} == {k: b}", "length(a)", "reverse(a)", "sort(arr)", "max(arr)", "sum(arr)", "avg(arr)", "join(',', arr)", "not_null(a, b)", "merge(@, @)", "keys(@)", "values(@)", "items(@)",
		"pad_left(s, a)", "split(s, ',', a)", "replace(s, 'a', 'b', a)", "find_first(s, 'b', a)", "find_last(s, 'b', a, b)", "s[a:b]"} {
		add(e)
	}
	if thorough {
		for i, e := range c01Expressions(false) {
			if i%13 == 0 {
				add(e.Text)
			}
		}
	} else {
		for i, e := range c01Expressions(false) {
			if i%149 == 0 {
				add(e.Text)
			}
		}
	}
	return out
}

// c03Huge: numeric values whose magnitude, used as a pad width, legitimately demands a result of that size.
func c03Huge(name string) bool {
	for _, p := range []string{"-max", "-min", "2^63", "2^64", "inf", "huge", "1e99999"} {
		if strings.Contains(name, p) {
			return true
		}
	}
	return false
}

func c03ValuePoint(r *core.Run, expr string, val c03Value, placement int) *core.Violation {
	if strings.Contains(expr, "pad_") && c03Huge(val.Name) {
		r.AbstainOn("pad width of astronomic magnitude: the result legitimately has that size (cost is C09's subject)")
		return nil
	}
	d := c03Placements(val.V)[placement]
	e, co := core.Compile(expr)
	if co.Kind == "panic" {
		return &core.Violation{Sig: "C03/panic/compile", Desc: fmt.Sprintf("Compile(%q)", expr), Point: map[string]any{"expr": expr, "kind": "expr", "doc": "-"}, Expected: "returns", Actual: co.Short()}
	}
	if e == nil {
		return nil
	}
	o := core.ExprSearch(e, d)
	r.Eval(o)
	r.Add("transitions", 1)
	k := c03Outcome(o)
	if k == "" {
		return nil
	}
	return &core.Violation{Sig: "C03/" + k + "/go-values/" + fnOf(expr) + "/" + strings.SplitN(val.Name, "-", 2)[0], Desc: fmt.Sprintf("Search(%q) with the Go value %s (%T) at placement %d", expr, val.Name, val.V, placement),
		Point:    map[string]any{"expr": expr, "doc": fmt.Sprintf("value %s placement %d", val.Name, placement), "value": val.Name, "placement": placement, "kind": "value"},
		Expected: "returns a result or an error", Actual: o.Short()}
}

func c03RunValues(r *core.Run) {
	vals := c03Values()
	exprs := c03ValueExprs(r.Thorough())
	r.Bound("go_values", len(vals))
	r.Bound("placements", 5)
	r.Bound("expressions", len(exprs))
	for i, e := range exprs {
		if !r.Mine(i) {
			continue
		}
		if r.Expired() {
			return
		}
		r.Add("states", 1)
		for _, v := range vals {
			for p := 0; p < 5; p++ {
				r.Begin(map[string]any{"expr": e, "doc": fmt.Sprintf("value %s placement %d", v.Name, p)})
				if viol := c03ValuePoint(r, e, v, p); viol != nil {
					r.Violate(viol)
				}
			}
		}
		if i%17 == 0 {
			r.Sample(func() any { return map[string]any{"expr": e, "values": len(vals), "placements": 5} })
		}
	}
}

// c03RunCalls: the whole built-in call space of C02 (every function x argument counts x typed alphabet, literal and
// document delivery) under the crash oracle.
func c03RunCalls(r *core.Run) {
	n := 0
	docCache := map[string]any{}
	for _, name := range ref.FunctionNames() {
		c02Calls(name, r.Thorough(), func(c c02Call) {
			n++
			if !r.Mine(n) || r.Expired() {
				return
			}
			d, ok := docCache[c.Doc]
			if !ok {
				d = core.JSONDoc(c.Doc)
				if len(docCache) < 50000 {
					docCache[c.Doc] = d
				}
			}
			if strings.HasPrefix(name, "pad_") && (strings.Contains(c.Expr, "2147483648") || strings.Contains(c.Expr, "9007199254740993") || strings.Contains(c.Expr, "922337203685477580") ||
				strings.Contains(c.Doc, "2147483648") || strings.Contains(c.Doc, "9007199254740993") || strings.Contains(c.Doc, "922337203685477580")) {
				return // a pad width of astronomic magnitude legitimately demands a result of that size
			}
			r.Add("states", 1)
			r.Begin(map[string]any{"expr": c.Expr, "doc": c.Doc})
			o := core.Search(c.Expr, d)
			r.Eval(o)
			r.Add("transitions", 1)
			if k := c03Outcome(o); k != "" {
				r.Violate(&core.Violation{Sig: "C03/" + k + "/calls/" + c.Shape, Desc: fmt.Sprintf("Search(%q, %s)", c.Expr, c.Doc),
					Point: map[string]any{"expr": c.Expr, "doc": c.Doc, "kind": "call"}, Expected: "returns a result or an error", Actual: o.Short()})
			}
		})
	}
	r.Bound("builtin_calls", n)
}

// c03RunExtremes: the integer-magnitude space of C09 (every slice/index/find/replace/split/pad parameter over the 64-bit
// range, enormous numeric text) under the crash oracle, on the pristine build.
func c03RunExtremes(r *core.Run) {
	n := 0
	c09MagnitudeSpace(func(family, expr, spec string) {
		n++
		if !r.Mine(n) || r.Expired() {
			return
		}
		d, docText := c09Doc(spec)
		if strings.Contains(expr, "pad_left('a', x)") {
			return // the pad width is the enormous number itself
		}
		r.Add("states", 1)
		r.Begin(map[string]any{"expr": expr, "doc": docText})
		o := core.Search(expr, d)
		r.Eval(o)
		r.Add("transitions", 1)
		if k := c03Outcome(o); k != "" {
			r.Violate(&core.Violation{Sig: "C03/" + k + "/integer-extremes/" + family, Desc: fmt.Sprintf("Search(%q, %s)", trunc(expr, 100), docText),
				Point: map[string]any{"expr": expr, "doc": docText, "kind": "extreme", "spec": spec}, Expected: "returns a result or an error", Actual: o.Short()})
		}
	})
	r.Bound("integer_extreme_points", n)
}

// ---------------------------------------------------------------------------
// nesting families

type c03Nest struct {
	Family string
	N      int
}

var c03Families = []string{"parens", "not", "dots", "indexes", "ors", "lists", "hashes", "calls", "lets", "filters", "pipes", "data-equal", "data-to_string", "data-flatten", "data-project", "literal-array"}

func c03NestingItems(thorough bool) []c03Nest {
	sizes := []int{100, 1000, 10000, 100000, 1000000}
	if thorough {
		sizes = append(sizes, 3000000, 10000000)
	}
	var out []c03Nest
	for _, f := range c03Families {
		for _, n := range sizes {
			out = append(out, c03Nest{f, n})
		}
	}
	return out
}

func nestData(n int) any {
	var v any = json.Number("1")
	for i := 0; i < n; i++ {
		v = []any{v}
	}
	return v
}

func (c c03Nest) build() (expr string, d any) {
	n := c.N
	rep := strings.Repeat
	switch c.Family {
	case "parens":
		return rep("(", n) + "@" + rep(")", n), nil
	case "not":
		return rep("!", n) + "@", nil
	case "dots":
		return "a" + rep(".a", n), map[string]any{"a": map[string]any{"a": json.Number("1")}}
	case "indexes":
		return "@" + rep("[0]", n), []any{[]any{json.Number("1")}}
	case "ors":
		return "@" + rep(" || @", n), nil
	case "lists":
		return rep("[", n) + "@" + rep("]", n), json.Number("1")
	case "hashes":
		return rep("{a:", n) + "@" + rep("}", n), json.Number("1")
	case "calls":
		return rep("abs(", n) + "@" + rep(")", n), json.Number("-1")
	case "lets":
		return rep("let $x = @ in ", n) + "$x", json.Number("1")
	case "filters":
		return "@" + rep("[?@]", n), []any{json.Number("1")}
	case "pipes":
		return "@" + rep(" | @", n), json.Number("1")
	case "data-equal":
		return "@ == @", nestData(n)
	case "data-to_string":
		return "to_string(@)", nestData(n)
	case "data-flatten":
		return "[][][]", nestData(n)
	case "data-project":
		return "[*][*][0]", nestData(n)
	case "literal-array":
		return "`" + rep("[", n) + rep("]", n) + "`", nil
	}
	return "@", nil
}

func c03NestPoint(r *core.Run, c c03Nest) *core.Violation {
	expr, d := c.build()
	desc := fmt.Sprintf("family:%s n=%d", c.Family, c.N)
	r.Begin(map[string]any{"expr": desc, "doc": ""})
	o := core.Search(expr, d)
	r.Eval(o)
	r.Add("states", 1)
	r.Add("transitions", 1)
	if k := c03Outcome(o); k != "" {
		return &core.Violation{Sig: "C03/" + k + "/nesting/family:" + c.Family, Desc: "nesting " + desc, Point: map[string]any{"expr": desc, "doc": "", "kind": "nest", "family": c.Family, "n": c.N},
			Expected: "returns a result or an error", Actual: o.Short()}
	}
	return nil
}

func c03RunNesting(r *core.Run) {
	items := c03NestingItems(r.Thorough())
	r.Bound("nesting_families", c03Families)
	for i, it := range items {
		if !r.Mine(i) {
			continue
		}
		it := it
		if v := c03NestPoint(r, it); v != nil {
			r.Violate(v)
		}
		r.Sample(func() any { return map[string]any{"family": it.Family, "depth": it.N} })
	}
}

func c03Judge(r *core.Run, phase string, pt map[string]any) *core.Violation {
	e := pstr(pt, "expr")
	if pstr(pt, "kind") == "long" {
		raws, texts := c03ByteDocs()
		return c03Expr(r, pstr(pt, "pre")+strings.Repeat(pstr(pt, "ch"), pint(pt, "n"))+pstr(pt, "suf"), "long-texts", raws[:1], texts[:1])
	}
	if strings.HasPrefix(e, "family:") {
		f := strings.Fields(e)
		n, _ := strconv.Atoi(strings.TrimPrefix(f[1], "n="))
		return c03NestPoint(r, c03Nest{strings.TrimPrefix(f[0], "family:"), n})
	}
	if pstr(pt, "kind") == "value" || strings.HasPrefix(pstr(pt, "doc"), "value ") {
		var name string
		var placement int
		fmt.Sscanf(pstr(pt, "doc"), "value %s placement %d", &name, &placement)
		for _, v := range c03Values() {
			if v.Name == name {
				return c03ValuePoint(r, e, v, placement)
			}
		}
		return nil
	}
	if pstr(pt, "kind") == "extreme" {
		d, _ := c09Doc(pstr(pt, "spec"))
		o := core.Search(e, d)
		if k := c03Outcome(o); k != "" {
			return &core.Violation{Sig: "C03/" + k + "/integer-extremes", Desc: "Search", Point: pt, Expected: "returns a result or an error", Actual: o.Short()}
		}
		return nil
	}
	if pstr(pt, "kind") == "call" {
		o := core.Search(e, core.JSONDoc(pstr(pt, "doc")))
		if k := c03Outcome(o); k != "" {
			return &core.Violation{Sig: "C03/" + k + "/calls", Desc: "Search", Point: pt, Expected: "returns a result or an error", Actual: o.Short()}
		}
		return nil
	}
	raws, texts := c03ByteDocs()
	return c03Expr(r, e, pstr(pt, "family"), raws, texts)
}
