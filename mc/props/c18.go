package props

import (
	"encoding/json"
	"fmt"
	"math"
	"strings"

	"github.com/woodsbury/decimal128"
	"github.com/woodsbury/jmespath/internal/verifmc/core"
	"github.com/woodsbury/jmespath/internal/verifmc/ref"
)

// C18 — results are plain JSON values that can be queried and serialised again
// (form G; closure under the public API).

func c18Docs(thorough bool) []doc {
	ss := []string{`"a,b"`, `""`, `" xA "`}
	ns := []string{"1", "1.5", "-2"}
	as := []string{"[3,1,2]", "[]", "[1.5,null]"}
	sas := []string{`["b","a"]`, "[]"}
	os := []string{"{}", `{"k":1,"n":"x"}`}
	oas := []string{`[{"k":"x","n":2},{"k":"y","n":1},{"k":"x","n":3}]`, "[]", `[{"n":null},{"k":"y"},{"k":"x","n":3},{}]`}
	if thorough {
		ss = append(ss, `"é€"`)
		ns = append(ns, "0", "1e2")
		as = append(as, `[[1,2],[3]]`)
		os = append(os, `{"a":{"b":[1]},"n":null}`)
	}
	var out []doc
	for _, s := range ss {
		for _, n := range ns {
			for _, a := range as {
				for _, sa := range sas {
					for _, o := range os {
						for _, oa := range oas {
							out = append(out, mkDoc(fmt.Sprintf(`{"s":%s,"n":%s,"a":%s,"sa":%s,"o":%s,"oa":%s,"p":[["k",%s],["m",%s]]}`, s, n, a, sa, o, oa, n, a)))
						}
					}
				}
			}
		}
	}
	return out
}

// first expressions: every built-in at least once with arguments that succeed on some document, and the core constructs
var c18First = []string{
	"@", "s", "n", "a", "sa", "o", "oa", "p", "missing", "a[0]", "a[-1]", "a[1:]", "a[::-1]", "a[*]", "a[]", "oa[*].k", "oa[?n > `1`]", "oa[?n > `1`].k", "o.*", "*", "oa[*].*", "[s, n]", "{x: s, y: a}",
	"oa[*].{x: k}", "oa[*].[k, n]", "a | [0]", "`[1,null,{\"a\":[]}]`", "`{\"a\":null}`", "'raw'", "`1.50`", "`null`", "`7 `", "`-1.5\n`", "`0\t`", "` [1, 2 ] `", "`{\"a\": 1 } `", "[`7 `, `8`]", "`9e6144` / `1e-40`", "[`9e6144` / `1e-40`, n]", "`-9e6144` * `1e40`", "map(&(@ / `1e-6100`), `[9e6000]`)", "{q: `1e6144` / `0.001`}", "n + n", "n - `0.5`", "n * n", "n / `4`", "n // `2`", "n % `2`", "-n", "+n",
	"n == n", "n < `2`", "s == 'a,b'", "!s", "s && n", "missing || a", "let $v = a in [$v, $v]", "let $v = n in oa[*].[$v, n]", "let $v = n in a", "let $v = s in oa", "let $v = a, $w = s in o", "let $v = n in let $w = $v in sa",
	"abs(n)", "avg(a[?@])", "ceil(n)", "contains(a, `1`)", "contains(s, 'a')", "ends_with(s, 'b')", "find_first(s, 'b')", "find_last(s, 'a', `0`)", "floor(n)", "from_items(p)", "group_by(oa, &k)",
	"items(o)", "join('-', sa)", "keys(o)", "length(a)", "length(s)", "length(o)", "lower(s)", "map(&k, oa)", "map(&[@], a)", "max(a[?@])", "max(sa)", "max_by(oa, &n)", "merge(o, {z: n})", "min(a[?@])",
	"min_by(oa, &n)", "not_null(missing, n)", "pad_left(s, `6`)", "pad_right(s, `6`, '-')", "replace(s, 'a', 'zz')", "replace(s, 'a', 'b', `1`)", "reverse(a)", "reverse(s)", "sort(a[?@])", "sort(sa)",
	"sort_by(oa, &n)", "sort_by(oa, &k)", "split(s, ',')", "split(s, '', `1`)", "starts_with(s, 'a')", "sum(a[?@])", "to_array(n)", "to_array(a)", "to_number(s)", "to_number('1e2')", "to_number('0.10')",
	"to_string(o)", "to_string(n)", "to_string(s)", "trim(s)", "trim_left(s)", "trim_right(s, ' ')", "type(n)", "type(@)", "upper(s)", "values(o)", "zip(a, sa)", "zip(sa, a, a)",
	"sum(`[]`)", "avg(`[]`)", "max(`[]`)", "group_by(`[]`, &k)", "sort_by(`[]`, &k)", "keys(`{}`)", "values(`{}`)", "items(`{}`)", "from_items(`[]`)", "merge(`{}`)", "zip(`[]`)", "split('', '')", "map(&@, `[]`)",
	"merge(`{}`, `{}`)", "merge(o, `{}`)", "{s: merge(`{}`, `{}`), t: from_items(`[]`)}", "group_by(`[]`, &k)", "merge(`{}`)", "sort_by(oa, &n) | [-1]", "oa | [-1]", "oa[*][-1]", "[[-1], [0]]", "a | [300]", "oa[*].n", "oa[*].k", "oa[1:].n", "oa[::-1].k", "oa[*].n | [0]", "oa[*].[n][0]", "abs(`1e7000`)", "-`1e7000`", "max([`1e7000`, n])", "min([`-4e6200`])", "ceil(`-4e6200`)", "floor(`1e7000`)", "[`1e7000`]", "`1e7000`", "sort([`1e7000`, n])",
	"a[?`false`]", "oa[?k == 'none']", "oa[?k == 'none'].n", "a[5:]", "o.*.missing", "[a[5:], oa[?`false`]]", "s[0:2]", "s[::-1]", "s[5:]", "a[*][0]", "oa[].k", "a[][]", "[[1]][]", "(a)[*]", "a[*] | [*]",
}

var c18Second = []string{
	"type(@)", "@", "[0]", "[*]", "length(@)", "to_string(@)", "@ == @", "sort(@)", "keys(@)", "@ + `1`", "[]", "*", "k", "[?@]", "[-1]", "[1:]", "to_array(@)", "reverse(@)", "not_null(@)", "values(@)", "items(@)",
	"abs(@)", "ceil(@)", "sum(@)", "max(@)", "join(',', @)", "contains(@, `1`)", "to_number(@)", "lower(@)", "[@]", "{v: @}", "@[0]", "@.*", "@ < `2`", "-@", "!@", "@ && 'y'", "map(&type(@), @)", "sort_by(@, &n)",
	"group_by(@, &k)", "from_items(@)", "merge(@, @)", "zip(@, @)", "[*].k", "[*].n", "length(to_string(@))", "split(@, ',')", "pad_left(@, `4`)", "trim(@)", "find_first(@, 'a')", "floor(@)", "avg(@)", "min(@)",
	"upper(@)", "starts_with(@, 'a')", "replace(@, 'a', 'b')", "type(@[0])", "[*][0]", "x", "[?k == 'x']", "k.type(@)", "[0].type(@)", "(k | type(@))", "k.not_null(@, 'd')", "x.to_array(@)", "[0] | [0].to_string(@)", "k.k.length(to_array(@))", "@ * `2` == @ + @", "[::-1]", "*.k", "to_array(@)[0]", "@ == `[]`", "@ == `null`", "[-2]", "[256]", "[-300]", "length([-1])", "[[-1], [0]]", "[*][-1]", "type([-1])",
	// probes that bind variables of their own (to null, to a part of the result) under names the first expression may have used
	"let $v = missing in [$v, type($v)]", "let $v = `null` in type($v)", "let $v = @[99] in [$v]", "let $v = @ in let $v = missing in type($v)", "let $w = missing, $v = [0] in [$v, $w]", "let $v = @ in [*].[type($v)]",
}

func init() {
	core.Register(&core.Check{
		ID:    "C18",
		Title: "results are plain JSON values that can be queried and serialised again",
		Rule: "every pair (e1, e2) of the first-expression menu (all built-ins with succeeding arguments, all core constructs, empty-input cases) and the second-expression probe menu is evaluated on every document: the result of e1 is walked for non-JSON parts, " +
			"serialised with encoding/json and decoded again, e2 is searched over the live result and over the decoded result, and both must equal the one-shot search of `e1 | e2`; the same with every expression of the C01 space and every call of the C02 call space as e1; non-trivial = e1 and e2 both yield a non-null, non-empty value; " +
			"distinct_nontrivial counts distinct such outcomes",
		Phases:      []core.Phase{{Name: "closure", Build: "instr", Fn: c18Run}, {Name: "core-closure", Build: "instr", Fn: c18RunCore}, {Name: "calls-closure", Build: "instr", Fn: c18RunCalls}},
		Judge:       c18Judge,
		Assumptions: []string{"e2 mentions neither the root node nor outer variables", "input documents are JSON decoded with UseNumber"},
	})
}

// plainJSON walks a raw result; it returns a description of the first non-JSON part.
func plainJSON(v any, path string) string {
	switch x := v.(type) {
	case nil, bool, string:
		return ""
	case json.Number:
		if _, ok := core.ParseDecimal(string(x)); !ok {
			return path + ": json.Number with non-numeric text " + string(x)
		}
		return ""
	case decimal128.Decimal:
		if x.IsNaN() || x.IsInf(0) {
			return path + ": decimal " + x.String()
		}
		return ""
	case float64:
		if math.IsNaN(x) || math.IsInf(x, 0) {
			return path + ": float " + fmt.Sprint(x)
		}
		return ""
	case float32:
		if math.IsNaN(float64(x)) || math.IsInf(float64(x), 0) {
			return path + ": float " + fmt.Sprint(x)
		}
		return ""
	case int, int8, int16, int32, int64, uint, uint8, uint16, uint32, uint64:
		return ""
	case []any:
		if x == nil {
			return path + ": nil []any (serialises as null)"
		}
		for i, e := range x {
			if s := plainJSON(e, fmt.Sprintf("%s[%d]", path, i)); s != "" {
				return s
			}
		}
		return ""
	case map[string]any:
		if x == nil {
			return path + ": nil map[string]any (serialises as null)"
		}
		for k, e := range x {
			if s := plainJSON(e, path+"."+k); s != "" {
				return s
			}
		}
		return ""
	}
	return fmt.Sprintf("%s: Go value of type %T", path, v)
}

func c18Check(r *core.Run, e1, e2 string, d doc) *core.Violation {
	c1 := prepareImplCached(e1)
	c2 := prepareImplCached(e2)
	piped := prepareImplCached(e1 + " | " + e2)
	o1 := c1.run(d.Raw)
	r.Add("evaluations", 1)
	mk := func(kind, desc, exp, act string) *core.Violation {
		return &core.Violation{Sig: "C18/" + kind + "/" + fnOf(e1) + "/" + fnOf(e2), Desc: desc,
			Point: map[string]any{"e1": e1, "e2": e2, "expr": e1 + " | " + e2, "doc": d.Text}, Expected: exp, Actual: act}
	}
	if o1.Kind == "panic" {
		return mk("panic", fmt.Sprintf("Search(%q, %s)", e1, d.Text), "a value or an error", o1.Short())
	}
	if o1.Kind != "ok" {
		// e1 fails: so must the pipe, with the same category
		op := piped.run(d.Raw)
		r.Add("evaluations", 1)
		if op.Key() != o1.Key() {
			return mk("pipe-differs-on-failure", fmt.Sprintf("Search(%q, %s)", e1+" | "+e2, d.Text), o1.Short(), op.Short())
		}
		return nil
	}
	if s := plainJSON(o1.Raw, "result"); s != "" {
		return mk("non-json-result", fmt.Sprintf("Search(%q, %s)", e1, d.Text), "only nil, bool, string, numbers, non-nil []any and map[string]any", s)
	}
	text, err := json.Marshal(o1.Raw)
	if err != nil {
		return mk("not-serialisable", fmt.Sprintf("json.Marshal(Search(%q, %s))", e1, d.Text), "a JSON text", err.Error())
	}
	dec := json.NewDecoder(strings.NewReader(string(text)))
	dec.UseNumber()
	var back any
	if err := dec.Decode(&back); err != nil {
		return mk("serialisation-not-decodable", string(text), "a JSON text", err.Error())
	}
	if !core.EqualFast(core.Norm(back), o1.Val) {
		return mk("serialisation-changes-the-value", fmt.Sprintf("json.Marshal(Search(%q, %s)) = %s", e1, d.Text, text), core.Canon(o1.Val), core.Canon(core.Norm(back)))
	}
	live := c2.run(o1.Raw)
	op := piped.run(d.Raw)
	fed := c2.run(back)
	r.Eval(op)
	r.Add("evaluations", 2)
	r.Add("transitions", 1)
	if live.Key() != op.Key() {
		return mk("search-of-result-differs-from-pipe", fmt.Sprintf("Search(%q, Search(%q, %s)) vs Search(%q, ...)", e2, e1, d.Text, e1+" | "+e2), op.Short(), live.Short())
	}
	if fed.Key() != live.Key() {
		return mk("decoded-result-answers-differently", fmt.Sprintf("Search(%q, decode(%s))", e2, text), live.Short(), fed.Short())
	}
	return nil
}

func fnOf(e string) string {
	if i := strings.IndexAny(e, "( "); i > 0 {
		return e[:i]
	}
	if len(e) > 12 {
		return e[:12]
	}
	return e
}

func c18Run(r *core.Run) {
	docs := c18Docs(r.Thorough())
	r.Bound("first_expressions", len(c18First))
	r.Bound("second_expressions", len(c18Second))
	r.Bound("documents", len(docs))
	n := 0
	for _, e1 := range c18First {
		for _, e2 := range c18Second {
			n++
			if !r.Mine(n) {
				continue
			}
			if r.Expired() {
				return
			}
			r.Add("states", 1)
			for di, d := range docs {
				r.Begin(map[string]any{"expr": e1 + " | " + e2, "doc": d.Text})
				if v := c18Check(r, e1, e2, d); v != nil {
					r.Violate(v)
				}
				if di == 0 && n%97 == 0 {
					r.Sample(func() any { return map[string]any{"e1": e1, "e2": e2, "doc": d.Text} })
				}
			}
		}
	}
}

func c18Judge(r *core.Run, phase string, pt map[string]any) *core.Violation {
	return c18Check(r, pstr(pt, "e1"), pstr(pt, "e2"), mkDoc(pstr(pt, "doc")))
}

// c18RunCalls drives the closure oracle with every call of the C02 call space as e1 (each on its own document).
func c18RunCalls(r *core.Run) {
	core.EnableTicks(c02TickBudget)
	probes := []string{"type(@)", "length(@)", "[0]", "[*]", "to_string(@)", "join('-', @)", "@ == @", "keys(@)"}
	r.Bound("calls_probes", probes)
	n := 0
	for _, name := range ref.FunctionNames() {
		c02Calls(name, r.Thorough(), func(c c02Call) {
			n++
			if !r.Mine(n) || r.Expired() {
				return
			}
			if strings.HasPrefix(c.Expr, "let ") {
				return // `let ... in e1 | e2` would put e2 inside the let body
			}
			if strings.HasPrefix(name, "pad_") && strings.Contains(c.Expr, "9223372036854775807") {
				return // a legitimately enormous result
			}
			r.Add("states", 1)
			d := mkDoc(c.Doc)
			for _, e2 := range probes {
				r.Begin(map[string]any{"expr": c.Expr + " | " + e2, "doc": c.Doc})
				if v := c18Check(r, c.Expr, e2, d); v != nil {
					r.Violate(v)
				}
			}
		})
	}
}

// c18RunCore drives the closure oracle with every expression of the C01 space as e1.
func c18RunCore(r *core.Run) {
	exprs := c01Expressions(r.Thorough())
	all := c01Docs(false)
	step := 40
	if r.Thorough() {
		step = 8
	}
	var docs []doc
	for i := 0; i < len(all); i += step {
		docs = append(docs, all[i])
	}
	probes := []string{"type(@)", "[0]", "[*]", "to_string(@)", "*", "@ == @", "[?@]", "length(@)", "a", "[]"}
	r.Bound("core_first_expressions", len(exprs))
	r.Bound("core_probes", probes)
	r.Bound("core_documents", len(docs))
	for n, e := range exprs {
		if !r.Mine(n) {
			continue
		}
		if r.Expired() {
			return
		}
		if strings.HasPrefix(e.Text, "let ") {
			continue // `let ... in e1 | e2` would put e2 inside the let body
		}
		r.Add("states", 1)
		for _, e2 := range probes {
			for _, d := range docs {
				r.Begin(map[string]any{"expr": e.Text + " | " + e2, "doc": d.Text})
				if v := c18Check(r, e.Text, e2, d); v != nil {
					r.Violate(v)
				}
			}
		}
		implCache = map[string]*compiled{}
	}
}
