// Package props holds one bounded-exhaustive check per property.
package props

import (
	"encoding/json"
	"fmt"
	"strings"

	"github.com/woodsbury/jmespath/internal/verifmc/core"
)

// expectation is what an oracle demands of one call.
type expectation struct {
	Val  any      // normalised value (when Cats is empty)
	Cats []string // acceptable error categories (non-empty => an error is demanded)
}

func (e expectation) String() string {
	if len(e.Cats) > 0 {
		return "error[" + strings.Join(e.Cats, "|") + "]"
	}
	return "ok " + core.Canon(e.Val)
}

// diffKind classifies how an observation departs from an expectation
// ("" = it does not).
func diffKind(o core.Obs, e expectation) string {
	switch o.Kind {
	case "panic":
		return "panic"
	case "budget":
		return "budget"
	case "err":
		if o.FmtFail != "" {
			return "error-unformattable"
		}
		if o.BothSet {
			return "result-beside-error"
		}
		if len(e.Cats) == 0 {
			return "unexpected-error:" + strings.Join(o.Cats, "+")
		}
		if len(o.Cats) != 1 {
			return fmt.Sprintf("error-matches-%d-categories", len(o.Cats))
		}
		for _, c := range e.Cats {
			if c == o.Cats[0] {
				return ""
			}
		}
		return "wrong-category:" + o.Cats[0]
	case "ok":
		if len(e.Cats) > 0 {
			return "missing-error:" + strings.Join(e.Cats, "|")
		}
		if !core.ValidUTF8(o.Raw) {
			return "invalid-utf8"
		}
		if core.Equal(o.Val, e.Val) {
			return ""
		}
		if core.HasForeign(o.Val) {
			return "non-json-result"
		}
		return "wrong-value"
	}
	return "unknown-observation"
}

func jsonText(v any) string {
	b, err := json.Marshal(v)
	if err != nil {
		return fmt.Sprintf("<%v>", err)
	}
	return string(b)
}

func pstr(p map[string]any, k string) string {
	s, _ := p[k].(string)
	return s
}

func pint(p map[string]any, k string) int {
	switch x := p[k].(type) {
	case float64:
		return int(x)
	case int:
		return x
	case int64:
		return int(x)
	case json.Number:
		n, _ := x.Int64()
		return int(n)
	}
	return 0
}

func pbool(p map[string]any, k string) bool {
	b, _ := p[k].(bool)
	return b
}
