package props

import (
	"encoding/json"
	"fmt"
	"math"
	"runtime"
	"strconv"
	"strings"

	"github.com/woodsbury/jmespath/internal/verifmc/core"
	"github.com/woodsbury/jmespath/internal/verifrt"
)

// C09 — evaluation cost is bounded by the size of expression, data and result
// (form G with a deterministic cost oracle: loop iterations inside the library,
// counted by the instrumented build, and bytes allocated; no wall clock decides).

const (
	c09TickBudget = 20_000_000 // a call that loops more often than this is aborted and reported
	c09TickFactor = 64         // ticks <= factor * (|expr| + |doc| + |result|) + slack
	c09TickSlack  = 512
	c09ByteFactor = 4096 // bytes allocated <= factor * size + slack
	c09ByteSlack  = 1 << 20
)

func init() {
	core.Register(&core.Check{
		ID:    "C09",
		Title: "evaluation cost is bounded by the size of expression, data and result",
		Rule: "(magnitude) every integer parameter of the language - slice start/stop/step, index, find_first/find_last start and end, replace and split counts, pad widths up to 2^12 - ranges over the whole 64-bit range {0, +-1, +-2, n-1, n, n+1, +-2^15, +-2^31, +-2^62, 2^63-1, -2^63} " +
			"in all combinations on arrays and strings (ASCII and mixed width) of length 0, 1, 3, 8; numeric text with exponents and coefficients of up to 10^5 digits goes through arithmetic, comparison and conversion; " +
			"(growth) every size family (expression length, nesting depth, array / object / string size, fan-out of nested projections, inputs of sort_by / group_by / zip / merge / contains / ==) is run at n = 64 .. 4096 doubling; " +
			"oracle: loop iterations and function entries inside the library <= 64 * (|expression| + |document| + |result|) * max(1, log2) + 512 and bytes allocated <= 4096 * size + 1 MiB for the magnitude part; <= 64 * size^2 and iterations(2n) / iterations(n) <= 8 for the growth part (a low-order polynomial passes, an exponential does not); " +
			"a tick-budget abort, a worker killed by the memory limit or a call still running at the 60 s watchdog is a violation; non-trivial = a call that returns a non-empty value; distinct_nontrivial counts distinct results",
		Phases: []core.Phase{{Name: "magnitude", Build: "instr", Fn: c09RunMagnitude, CrashIsViolation: true}, {Name: "growth", Build: "instr", Fn: c09RunGrowth, CrashIsViolation: true},
			{Name: "many-expressions", Build: "instr", Procs: 1, Fn: c09RunMany, CrashIsViolation: true},
			{Name: "all-texts", Build: "instr", Fn: c09RunTexts, CrashIsViolation: true}, {Name: "after-a-large-call", Build: "instr", Procs: 26, Fn: c09RunAfter, CrashIsViolation: true}},
		Judge: c09Judge,
		Assumptions: []string{
			"work inside the standard library and the decimal128 package is not counted in loop iterations; it is seen through bytes allocated, the memory limit and the watchdog",
			"pad widths are explored up to 2^12 only: a larger width legitimately produces a result of that size",
			"the constants (64 iterations and 4096 bytes per unit of size) were calibrated once on the repaired tree with a margin of more than 16x over the largest ratio observed",
		},
	})
}

func sizeOf(v any) int {
	switch x := v.(type) {
	case nil:
		return 1
	case string:
		return 1 + len(x)
	case json.Number:
		return 1 + len(x)
	case []any:
		n := 1
		for _, e := range x {
			n += sizeOf(e)
		}
		return n
	case map[string]any:
		n := 1
		for k, e := range x {
			n += len(k) + sizeOf(e)
		}
		return n
	}
	return 2
}

type c09Cost struct {
	Obs   core.Obs
	Ticks int64
	Bytes uint64
	Size  int
}

func c09Measure(expr string, d any, withBytes bool) c09Cost {
	core.EnableTicks(c09TickBudget)
	var m0, m1 runtime.MemStats
	if withBytes {
		runtime.ReadMemStats(&m0)
	}
	o := core.Search(expr, d)
	ticks := core.LastTicks()
	var bytes uint64
	if withBytes {
		runtime.ReadMemStats(&m1)
		bytes = m1.TotalAlloc - m0.TotalAlloc
	}
	size := len(expr) + sizeOf(d)
	if o.Kind == "ok" {
		size += sizeOf(o.Raw)
	}
	return c09Cost{o, ticks, bytes, size}
}

func c09Judge1(r *core.Run, family, expr string, d any, docText string, spec string) *core.Violation {
	c := c09Measure(expr, d, true)
	r.Eval(c.Obs)
	r.Add("transitions", 1)
	mk := func(kind, exp, act string) *core.Violation {
		return &core.Violation{Sig: "C09/" + kind + "/" + family, Desc: fmt.Sprintf("Search(%q, %s)", trunc(expr, 120), trunc(docText, 120)),
			Point: map[string]any{"expr": expr, "doc": docText, "family": family, "kind": "magnitude", "spec": spec}, Expected: exp, Actual: act}
	}
	if c.Obs.Kind == "budget" {
		return mk("runaway-loop", fmt.Sprintf("at most %d loop iterations for a total size of %d", c09TickFactor*c.Size+c09TickSlack, c.Size), fmt.Sprintf("aborted after %d iterations", c.Ticks))
	}
	if c.Obs.Kind == "panic" {
		return mk("panic", "returns", c.Obs.Short())
	}
	lim := int64(c09TickFactor)*int64(c.Size)*int64(math.Max(1, math.Log2(float64(c.Size)))) + c09TickSlack
	if c.Ticks > lim {
		return mk("too-many-iterations", fmt.Sprintf("at most %d loop iterations for a total size of %d", lim, c.Size), fmt.Sprintf("%d iterations", c.Ticks))
	}
	if c.Bytes > uint64(c09ByteFactor)*uint64(c.Size)+c09ByteSlack {
		return mk("too-many-bytes", fmt.Sprintf("at most %d bytes allocated for a total size of %d", c09ByteFactor*c.Size+c09ByteSlack, c.Size), fmt.Sprintf("%d bytes", c.Bytes))
	}
	return nil
}

var c09Thorough bool

func c09Lengths() []int {
	if c09Thorough {
		return []int{0, 1, 3, 8, 21}
	}
	return []int{0, 1, 3, 8}
}

func c09Ints(n int) []string {
	seen := map[string]bool{}
	var out []string
	add := func(v int64) {
		s := strconv.FormatInt(v, 10)
		if !seen[s] {
			seen[s] = true
			out = append(out, s)
		}
	}
	for _, v := range []int64{0, 1, -1, 2, -2, int64(n) - 1, int64(n), int64(n) + 1, 1 << 15, -(1 << 15), 1 << 31, -(1 << 31), 1 << 62, -(1 << 62), math.MaxInt64, math.MinInt64} {
		add(v)
	}
	if c09Thorough {
		for _, v := range []int64{3, -3, int64(n) / 2, -int64(n), -int64(n) - 1, 1 << 32, -(1 << 32), 1 << 53, math.MaxInt64 - 1, math.MinInt64 + 1} {
			add(v)
		}
	}
	return out
}

func c09Subject(kind string, n int) (any, string) {
	switch kind {
	case "array":
		a := make([]any, n)
		for i := range a {
			a[i] = json.Number(strconv.Itoa(i))
		}
		return a, "array of " + strconv.Itoa(n)
	case "ascii":
		return strings.Repeat("ab,", n)[:n], "ascii string of " + strconv.Itoa(n)
	}
	rs := []rune(strings.Repeat("aé,€😀b", n))
	return string(rs[:n]), "mixed-width string of " + strconv.Itoa(n)
}

func c09RunMagnitude(r *core.Run) {
	if !verifrt.Instrumented {
		r.InternalError("C09 needs the instrumented build")
		return
	}
	c09Thorough = r.Thorough()
	r.Bound("tick_budget", c09TickBudget)
	r.Bound("integer_alphabet", c09Ints(8))
	r.Bound("lengths", c09Lengths())
	item := 0
	c09MagnitudeSpace(func(family, expr, spec string) {
		item++
		if !r.Mine(item) || r.Expired() {
			return
		}
		d, docText := c09Doc(spec)
		r.Add("states", 1)
		r.Begin(map[string]any{"expr": expr, "doc": docText})
		if v := c09Judge1(r, family, expr, d, docText, spec); v != nil {
			r.Violate(v)
		}
		if item%3001 == 0 {
			r.Sample(func() any { return map[string]any{"family": family, "expr": trunc(expr, 100), "doc": docText} })
		}
	})
}

// c09MagnitudeSpace enumerates the integer-magnitude space: every (family, expression, document specification).
func c09MagnitudeSpace(do func(family, expr, spec string)) {
	for _, n := range c09Lengths() {
		ints := c09Ints(n)
		for _, kind := range []string{"array", "ascii", "mixed"} {
			d, dt := "subject:"+kind+":"+strconv.Itoa(n), ""
			_ = dt
			for _, p := range append([]string{""}, ints...) {
				for _, q := range append([]string{""}, ints...) {
					do("slice/"+kind, "x["+p+":"+q+"]", d)
					for _, st := range ints {
						if st == "0" {
							continue
						}
						do("slice-step/"+kind, "x["+p+":"+q+":"+st+"]", d)
					}
				}
				if p != "" {
					do("index/"+kind, "x["+p+"]", d)
				}
			}
			if kind == "array" {
				continue
			}
			for _, p := range ints {
				do("find/"+kind, "find_first(x, 'b', `"+p+"`)", d)
				do("find/"+kind, "find_last(x, 'b', `"+p+"`)", d)
				for _, q := range ints {
					do("find/"+kind, "find_first(x, 'b', `"+p+"`, `"+q+"`)", d)
					do("find/"+kind, "find_last(x, ',', `"+p+"`, `"+q+"`)", d)
				}
				do("replace-count/"+kind, "replace(x, 'a', 'zz', `"+p+"`)", d)
				do("replace-count/"+kind, "replace(x, '', '-', `"+p+"`)", d)
				do("split-count/"+kind, "split(x, ',', `"+p+"`)", d)
				do("split-count/"+kind, "split(x, '', `"+p+"`)", d)
				do("split-count/"+kind, "split(x, 'nomatch', `"+p+"`)", d)
			}
			for _, w := range []string{"0", "1", "-1", strconv.Itoa(n), strconv.Itoa(n + 1), "100", "4096", "-4096", "-9223372036854775808"} {
				do("pad/"+kind, "pad_left(x, `"+w+"`)", d)
				do("pad/"+kind, "pad_right(x, `"+w+"`, '-')", d)
			}
			// a pad string that is not exactly one character is an error whatever the width: the cost must not follow the width
			for _, w := range ints {
				for _, pad := range []string{"''", "'ab'", "`1`", "`null`"} {
					do("pad-invalid/"+kind, "pad_left(x, `"+w+"`, "+pad+")", d)
					do("pad-invalid/"+kind, "pad_right(x, `"+w+"`, "+pad+")", d)
				}
			}
		}
	}
	// numeric text of enormous magnitude or precision
	digits := func(n int) string { return strings.Repeat("7", n) }
	texts := []string{"1e1000000", "1e-1000000", "1e999999999", "-1e999999999", "1e-999999999", "1e" + digits(1000), "1e-" + digits(1000), digits(100000), "0." + digits(100000), digits(50000) + "." + digits(50000),
		digits(100000) + "e-100000", "1e+" + digits(100000), "0e" + digits(100000), "9e6144", "1e6145", "1e-6177", "0e4000000000", "0e999999999", "0E+18446744073709551615", "-0e99999999999", "0.0e4000000000", "00e123456789012", "5e-324", "0e-4000000000"}
	for _, t := range texts {
		d := "num:" + t
		for _, e := range []string{"x + y", "x * x", "x / y", "y / x", "x // y", "x % y", "x < y", "x == x", "[x] == [x]", "abs(x)", "ceil(x)", "floor(x)", "-x", "sum([x, y])", "avg([x, x])", "max([x, y])", "sort([x, y, x])", "to_number(x)", "to_string(x)",
			"type(x)", "x", "contains([x], x)", "pad_left('a', x)", "split('a,b', ',', x)", "replace('aa', 'a', 'b', x)", "find_first('ab', 'b', x)", "!x", "x && y"} {
			do("number-text", e, d)
		}
		do("number-text", "to_number('"+t+"')", "null")
		do("number-text", "`"+t+"` + `1`", "null")
		do("number-text", "a["+t+"]", "one")
	}
	// integer literals of enormous length in bracket positions
	for _, n := range []int{20, 1000, 100000} {
		do("long-integer-literal", "a["+digits(n)+"]", "one")
		do("long-integer-literal", "a[:"+digits(n)+"]", "one")
		do("long-integer-literal", "a[::-"+digits(n)+"]", "one")
	}
}

// ---------------------------------------------------------------------------
// growth

type c09Family struct {
	Name  string
	Build func(n int) (expr string, d any)
}

func c09Array(n int, f func(i int) any) []any {
	a := make([]any, n)
	for i := range a {
		a[i] = f(i)
	}
	return a
}

func c09Families() []c09Family {
	num := func(i int) any { return json.Number(strconv.Itoa(i)) }
	rep := strings.Repeat
	obj := func(i int) any {
		return map[string]any{"k": json.Number(strconv.Itoa((i * 7919) % 1009)), "g": "g" + strconv.Itoa(i%7), "s": "s" + strconv.Itoa(i), "a": []any{num(i), num(i + 1)}}
	}
	bigObj := func(n int, off int) map[string]any {
		m := map[string]any{}
		for i := 0; i < n; i++ {
			m["k"+strconv.Itoa(i+off)] = num(i)
		}
		return m
	}
	fam := func(name, expr string, data func(n int) any) c09Family {
		return c09Family{name, func(n int) (string, any) { return expr, data(n) }}
	}
	arr := func(n int) any { return c09Array(n, num) }
	objs := func(n int) any { return c09Array(n, obj) }
	str := func(n int) any { return rep("ab,c", n/4+1)[:n] }
	mixed := func(n int) any { return string([]rune(rep("aé,€😀b", n/6+1))[:n]) }
	return []c09Family{
		{"expr-dots", func(n int) (string, any) { return "a" + rep(".a", n), map[string]any{"a": map[string]any{"a": num(1)}} }},
		{"expr-ors", func(n int) (string, any) { return "x" + rep(" || x", n), map[string]any{} }},
		{"expr-parens", func(n int) (string, any) { return rep("(", n) + "@" + rep(")", n), num(1) }},
		{"expr-list", func(n int) (string, any) { return "[" + rep("a, ", n) + "a]", map[string]any{"a": num(1)} }},
		{"expr-hash", func(n int) (string, any) {
			var b strings.Builder
			for i := 0; i < n; i++ {
				fmt.Fprintf(&b, "k%d: a, ", i)
			}
			return "{" + b.String() + "z: a}", map[string]any{"a": num(1)}
		}},
		{"expr-args", func(n int) (string, any) { return "not_null(" + rep("x, ", n) + "a)", map[string]any{"a": num(1)} }},
		{"expr-lets", func(n int) (string, any) { return rep("let $v = @ in ", n) + "$v", num(1) }},
		{"expr-let-doubling", func(n int) (string, any) {
			// each binding mentions the previous variable twice: linear when bindings are values, 2^n when they are re-evaluated
			var b strings.Builder
			b.WriteString("let $v0 = length(@) in ")
			for i := 1; i <= n/8; i++ {
				fmt.Fprintf(&b, "let $v%d = $v%d + $v%d in ", i, i-1, i-1)
			}
			return b.String() + "$v" + strconv.Itoa(n/8) + " == $v0", []any{}
		}},
		{"expr-let-fanout", func(n int) (string, any) {
			var b strings.Builder
			b.WriteString("let $v0 = [@, @] in ")
			for i := 1; i <= n/8; i++ {
				fmt.Fprintf(&b, "let $v%d = [$v%d[0], $v%d[1]] in ", i, i-1, i-1)
			}
			return b.String() + "$v" + strconv.Itoa(n/8) + "[0]", json.Number("1")
		}},
		{"expr-indexes", func(n int) (string, any) { return "@" + rep("[0]", n), []any{[]any{num(1)}} }},
		{"expr-sum-chain", func(n int) (string, any) { return "a" + rep(" + a", n), map[string]any{"a": num(1)} }},
		{"expr-pipes", func(n int) (string, any) { return "@" + rep(" | @", n), num(1) }},
		{"expr-filters", func(n int) (string, any) { return "@" + rep("[?@]", n/8+1), []any{[]any{num(1)}} }},
		{"wrap-paren-slice", func(n int) (string, any) {
			return rep("(", n) + "a" + rep("[:])", n), map[string]any{"a": []any{num(1), num(2), num(3)}}
		}},
		{"wrap-paren-wildcard", func(n int) (string, any) {
			return rep("(", n) + "a" + rep("[*])", n), map[string]any{"a": []any{num(1), num(2), num(3)}}
		}},
		{"wrap-paren-filter", func(n int) (string, any) {
			return rep("(", n) + "a" + rep("[?@])", n), map[string]any{"a": []any{num(1), num(2), num(3)}}
		}},
		{"wrap-paren-flatten", func(n int) (string, any) {
			return rep("(", n) + "a" + rep("[])", n), map[string]any{"a": []any{num(1), []any{num(2)}}}
		}},
		{"wrap-paren-star", func(n int) (string, any) {
			return rep("(", n) + "a" + rep(".* | [0])", n), map[string]any{"a": map[string]any{"k": map[string]any{"k": num(1)}}}
		}},
		{"wrap-slices", func(n int) (string, any) {
			return "a" + rep("[:]", n), map[string]any{"a": []any{num(1), num(2), num(3)}}
		}},
		{"wrap-wildcards", func(n int) (string, any) {
			return "a" + rep("[*]", n/8+1), map[string]any{"a": []any{num(1), num(2), num(3)}}
		}},
		{"wrap-not", func(n int) (string, any) { return rep("!", n) + "a", map[string]any{"a": num(1)} }},
		{"wrap-neg", func(n int) (string, any) { return rep("-", n) + " a", map[string]any{"a": num(1)} }},
		{"wrap-abs", func(n int) (string, any) { return rep("abs(", n) + "a" + rep(")", n), map[string]any{"a": num(-1)} }},
		// a call with its optional arguments present, nested in its own first argument
		{"wrap-trim2", func(n int) (string, any) {
			return rep("trim(", n/4+1) + "a" + rep(", 'x')", n/4+1), map[string]any{"a": "xax"}
		}},
		{"wrap-trim_left2", func(n int) (string, any) {
			return rep("trim_left(", n/4+1) + "a" + rep(", 'x')", n/4+1), map[string]any{"a": "xax"}
		}},
		{"wrap-pad3", func(n int) (string, any) {
			return rep("pad_left(", n/4+1) + "a" + rep(", `3`, '-')", n/4+1), map[string]any{"a": "x"}
		}},
		{"wrap-split3", func(n int) (string, any) {
			return rep("join(',', split(", n/8+1) + "a" + rep(", ',', `5`))", n/8+1), map[string]any{"a": "x,y"}
		}},
		{"wrap-replace4", func(n int) (string, any) {
			return rep("replace(", n/4+1) + "a" + rep(", 'x', 'y', `1`)", n/4+1), map[string]any{"a": "xx"}
		}},
		{"wrap-find4", func(n int) (string, any) {
			return rep("find_first('abc', 'b', ", n/8+1) + "`0`" + rep(", `3`)", n/8+1), map[string]any{}
		}},
		{"wrap-not_null", func(n int) (string, any) {
			return rep("not_null(", n/4+1) + "a" + rep(", b)", n/4+1), map[string]any{"b": num(1)}
		}},
		{"wrap-merge", func(n int) (string, any) {
			return rep("merge(", n/4+1) + "a" + rep(", a)", n/4+1), map[string]any{"a": map[string]any{"k": num(1)}}
		}},
		{"wrap-sort_by", func(n int) (string, any) {
			return rep("sort_by(", n/4+1) + "a" + rep(", &k)", n/4+1), map[string]any{"a": []any{map[string]any{"k": num(2)}, map[string]any{"k": num(1)}}}
		}},
		{"wrap-map", func(n int) (string, any) {
			return rep("map(&@, ", n/4+1) + "a" + rep(")", n/4+1), map[string]any{"a": []any{num(1), num(2)}}
		}},
		{"wrap-second-argument", func(n int) (string, any) {
			return rep("contains(a, ", n/4+1) + "b" + rep(")", n/4+1), map[string]any{"a": []any{true, false}, "b": false}
		}},
		{"wrap-to_array", func(n int) (string, any) { return rep("to_array(", n) + "a" + rep(")", n), map[string]any{"a": num(1)} }},
		{"wrap-list", func(n int) (string, any) {
			return rep("[", n) + "a" + rep("]", n) + rep("[0]", n), map[string]any{"a": num(1)}
		}},
		{"wrap-hash", func(n int) (string, any) {
			return rep("{k: ", n) + "a" + rep("}", n) + rep(".k", n), map[string]any{"a": num(1)}
		}},
		{"wrap-pipe-paren", func(n int) (string, any) { return rep("(", n) + "a" + rep(" | @)", n), map[string]any{"a": num(1)} }},
		{"wrap-let-alias", func(n int) (string, any) {
			return "let $v0 = a in " + func() string {
				var b strings.Builder
				for i := 1; i <= n/4+1; i++ {
					fmt.Fprintf(&b, "let $v%d = $v%d in ", i, i-1)
				}
				return b.String() + "$v" + strconv.Itoa(n/4+1)
			}(), map[string]any{"a": num(1)}
		}},
		fam("project", "[*]", arr), fam("project-field", "[*].k", objs), fam("flatten", "[*].a[]", objs), fam("filter", "[?k > `500`].s", objs), fam("nested-projection", "[*].a[*]", objs),
		fam("sort", "sort(@)", arr), fam("sort-strings", "sort([*].s)", objs), fam("sort_by", "sort_by(@, &k)[*].s", objs), fam("group_by", "group_by(@, &g) | keys(@)", objs), fam("max_by", "max_by(@, &k).s", objs),
		fam("zip", "zip(@, @)", arr), fam("map", "map(&[@, @], @)", arr), fam("reverse", "reverse(@)", arr), fam("sum", "sum(@)", arr), fam("avg", "avg(@)", arr), fam("max", "max(@)", arr), fam("length", "length(@)", arr),
		fam("contains-last", "contains(@, `-1`)", arr), fam("equal", "@ == @", objs), fam("join", "join(',', [*].s)", objs), fam("to_string", "to_string(@)", objs), fam("slice", "[::2]", arr), fam("slice-neg", "[::-3]", arr),
		fam("not_null", "not_null(@)", arr), fam("to_array", "to_array(@)", arr), fam("type", "type(@)", arr), fam("index-last", "[-1]", arr), fam("multi-in-projection", "[*].{x: k, y: s}", objs),
		{"merge", func(n int) (string, any) {
			return "merge(a, b)", map[string]any{"a": bigObj(n, 0), "b": bigObj(n, n/2)}
		}},
		{"keys", func(n int) (string, any) { return "keys(@)", bigObj(n, 0) }},
		{"values", func(n int) (string, any) { return "values(@)", bigObj(n, 0) }},
		{"items", func(n int) (string, any) { return "items(@)", bigObj(n, 0) }},
		{"object-wildcard", func(n int) (string, any) { return "*", bigObj(n, 0) }},
		{"object-equal", func(n int) (string, any) { return "a == b", map[string]any{"a": bigObj(n, 0), "b": bigObj(n, 0)} }},
		{"from_items", func(n int) (string, any) {
			return "from_items(@)", c09Array(n, func(i int) any { return []any{"k" + strconv.Itoa(i%97), num(i)} })
		}},
		{"filter-against-root", func(n int) (string, any) {
			return "a[?contains($.b, @)]", map[string]any{"a": c09Array(int(math.Sqrt(float64(n)))+1, num), "b": c09Array(int(math.Sqrt(float64(n)))+1, num)}
		}},
		fam("string-reverse", "reverse(@)", mixed), fam("string-length", "length(@)", mixed), fam("string-split-empty", "split(@, '')", mixed), fam("string-split", "split(@, ',')", str), fam("string-split-count", "split(@, ',', `3`)", str),
		fam("string-replace", "replace(@, 'a', 'zz')", str), fam("string-find-first", "find_first(@, 'zz')", str), fam("string-find-last", "find_last(@, 'ab', `1`, `1000000`)", mixed), fam("string-slice", "[1:-1]", mixed),
		fam("string-slice-step", "[::2]", mixed), fam("string-slice-neg", "[::-2]", mixed), fam("string-trim", "trim(@, 'ab')", str), fam("string-upper", "upper(@)", str), fam("string-pad", "pad_left(@, `8192`, '-')", str),
		fam("string-contains", "contains(@, 'zz')", str), fam("string-starts", "starts_with(@, 'ab')", str), fam("string-join-chars", "join('', split(@, ''))", mixed), fam("string-to_number", "to_number(@)", func(n int) any { return rep("7", n) }),
		fam("string-sort-chars", "sort(split(@, ''))", mixed),
		// round three
		fam("filter-nested", "[?a[?@ > `0`]].s", objs), fam("sort_by-strings", "sort_by(@, &s)[*].k", objs), fam("group_by-all-distinct", "group_by(@, &s) | length(@)", objs), fam("min_by", "min_by(@, &k).s", objs),
		fam("let-in-projection", "[*].[let $v = @ in $v.k]", objs), fam("map-abs", "map(&abs(@), @)", arr), fam("keys-sorted", "sort(keys(@))", func(n int) any { return bigObj(n, 0) }), fam("object-projection-field", "*.k", func(n int) any {
			m := map[string]any{}
			for i := 0; i < n; i++ {
				m["o"+strconv.Itoa(i)] = map[string]any{"k": num(i)}
			}
			return m
		}),
		fam("contains-string-array", "contains([*].s, 'nomatch')", objs), fam("arith-in-projection", "[*].(k * `2` + `1`)", objs), fam("compare-in-filter", "[?k >= `0` && k < `100000`] | length(@)", objs), fam("pipe-after-projection", "[*].k | sort(@) | [0]", objs),
		fam("flatten-twice", "[*].[a, a][][]", objs), fam("to_number-map", "map(&to_number(@), [*].s)", objs), fam("not-in-filter", "[?!(k == `1`)] | length(@)", objs), fam("index-in-projection", "[*].a[0]", objs), fam("slice-in-projection", "[*].a[::-1]", objs),
		fam("string-ends", "ends_with(@, 'zz')", str), fam("string-lower", "lower(@)", str), fam("string-trim_left", "trim_left(@)", func(n int) any { return rep(" ", n) + "x" }), fam("string-trim_right", "trim_right(@)", func(n int) any { return "x" + rep(" ", n) }),
		fam("string-replace-empty", "replace(@, '', '-')", mixed), fam("string-replace-all-matches", "replace(@, 'a', '')", func(n int) any { return rep("a", n) }), fam("string-find-overlap", "find_last(@, 'aab')", func(n int) any { return rep("a", n) }),
		fam("string-split-no-match", "split(@, 'nomatch')", str), fam("string-split-all-separators", "split(@, ',')", func(n int) any { return rep(",", n) }), fam("string-pad-right", "pad_right(@, `100`)", str), fam("string-equal", "@ == @", str),
		fam("string-compare", "[@ < @, @ >= @]", str), fam("string-to_array", "to_array(@)", str), fam("string-join-self", "join(@, ['a', 'b', 'c'])", str),
		{"literal-array", func(n int) (string, any) {
			var b strings.Builder
			b.WriteString("`[")
			for i := 0; i < n; i++ {
				if i > 0 {
					b.WriteString(",")
				}
				b.WriteString(strconv.Itoa(i))
			}
			return b.String() + "]`", nil
		}},
		{"literal-object", func(n int) (string, any) {
			var b strings.Builder
			b.WriteString("`{")
			for i := 0; i < n; i++ {
				if i > 0 {
					b.WriteString(",")
				}
				fmt.Fprintf(&b, `"k%d":%d`, i, i)
			}
			return b.String() + "}`", nil
		}},
		{"literal-nested", func(n int) (string, any) { return "`" + rep("[", n) + rep("]", n) + "`", nil }},
		{"literal-string-escapes", func(n int) (string, any) { return "`\"" + rep("\\u00e9\\n", n) + "\"`", nil }},
		{"raw-string", func(n int) (string, any) { return "'" + rep("a\\'", n) + "'", nil }},
		{"quoted-identifier", func(n int) (string, any) { return "\"" + rep("a\\u00e9", n) + "\"", map[string]any{} }},
		{"long-identifier", func(n int) (string, any) { return rep("a", n), map[string]any{} }},
		{"whitespace", func(n int) (string, any) { return rep(" ", n) + "a" + rep("\n", n), map[string]any{"a": num(1)} }},
		{"expr-compare-chain", func(n int) (string, any) { return "a" + rep(" == a", n), map[string]any{"a": num(1)} }},
		{"expr-ands", func(n int) (string, any) { return "a" + rep(" && a", n), map[string]any{"a": num(1)} }},
		{"expr-mul-chain", func(n int) (string, any) { return "a" + rep(" * a", n), map[string]any{"a": num(1)} }},
		{"expr-merge-args", func(n int) (string, any) {
			return "merge(a" + rep(", a", n) + ")", map[string]any{"a": map[string]any{"k": num(1)}}
		}},
		{"expr-zip-args", func(n int) (string, any) {
			return "zip(a" + rep(", a", n) + ")", map[string]any{"a": []any{num(1), num(2)}}
		}},
		{"expr-multi-hash-of-lists", func(n int) (string, any) {
			var b strings.Builder
			for i := 0; i < n/4+1; i++ {
				fmt.Fprintf(&b, "k%d: [a, a], ", i)
			}
			return "{" + b.String() + "z: a}", map[string]any{"a": num(1)}
		}},
		{"expr-exprefs", func(n int) (string, any) {
			return rep("map(&", n/16+1) + "@" + rep(", [a])", n/16+1), map[string]any{"a": num(1)}
		}},
		{"deep-document-path", func(n int) (string, any) {
			var d any = num(1)
			for i := 0; i < n; i++ {
				d = map[string]any{"a": d}
			}
			return "a" + rep(".a", n-1), d
		}},
		{"deep-document-flatten", func(n int) (string, any) {
			var d any = []any{num(1)}
			for i := 0; i < n; i++ {
				d = []any{d}
			}
			return "@" + rep("[]", n), d
		}},
		{"deep-document-equal", func(n int) (string, any) {
			var d any = []any{num(1)}
			for i := 0; i < n; i++ {
				d = []any{d}
			}
			return "@ == @", d
		}},
		{"projection-two-faults", func(n int) (string, any) {
			// a projected function that fails on two elements far apart: the call must still return (with an error)
			a := c09Array(n, num)
			a[n/8] = "x"
			a[n-n/8-1] = "y"
			return "@[*].abs(@)", a
		}},
		{"map-two-faults", func(n int) (string, any) {
			a := c09Array(n, num)
			a[n/8] = "x"
			a[n-n/8-1] = "y"
			return "map(&abs(@), @)", a
		}},
		{"filter-two-faults", func(n int) (string, any) {
			a := c09Array(n, num)
			a[n/8] = "x"
			a[n-n/8-1] = "y"
			return "@[?abs(@) > `1`]", a
		}},
		{"sort_by-two-faults", func(n int) (string, any) {
			a := c09Array(n, num)
			a[n/8] = "x"
			a[n-n/8-1] = "y"
			return "sort_by(@, &abs(@))", a
		}},
		{"deep-object-equal", func(n int) (string, any) {
			mk := func() any {
				var d any = map[string]any{"a": num(1)}
				for i := 0; i < n; i++ {
					d = map[string]any{"a": d}
				}
				return d
			}
			return "x == y", map[string]any{"x": mk(), "y": mk()}
		}},
		{"deep-object-contains", func(n int) (string, any) {
			mk := func() any {
				var d any = map[string]any{"a": num(1), "b": []any{num(2)}}
				for i := 0; i < n; i++ {
					d = map[string]any{"a": d, "b": []any{num(i)}}
				}
				return d
			}
			return "[contains(l, x), l[0] != x, [x] == l]", map[string]any{"x": mk(), "l": []any{mk()}}
		}},
		{"deep-object-path-and-values", func(n int) (string, any) {
			var d any = num(1)
			for i := 0; i < n; i++ {
				d = map[string]any{"a": d, "b": num(i)}
			}
			return "[a.a.a.b, length(to_string(@)), keys(@), values(a)[1]]", d
		}},
		{"deep-document-to_string", func(n int) (string, any) {
			var d any = []any{num(1)}
			for i := 0; i < n; i++ {
				d = []any{d}
			}
			return "to_string(@) | length(@)", d
		}},
	}
}

func c09GrowthCheck(r *core.Run, f c09Family, thorough bool) *core.Violation {
	maxN := 4096
	if thorough {
		maxN = 131072
	}
	var prev int64
	var prevN int
	for n := 64; n <= maxN; n *= 2 {
		expr, d := f.Build(n)
		r.Begin(map[string]any{"expr": "family:" + f.Name + " n=" + strconv.Itoa(n), "doc": ""})
		c := c09Measure(expr, d, false)
		r.Eval(c.Obs)
		r.Add("transitions", 1)
		mk := func(kind, exp, act string) *core.Violation {
			return &core.Violation{Sig: "C09/" + kind + "/growth/" + f.Name, Desc: fmt.Sprintf("family %s at n=%d: Search(%q, ...)", f.Name, n, trunc(expr, 60)),
				Point: map[string]any{"expr": "family:" + f.Name + " n=" + strconv.Itoa(n), "doc": "", "family": f.Name, "kind": "growth"}, Expected: exp, Actual: act}
		}
		if c.Obs.Kind == "budget" {
			return mk("runaway-loop", "terminates within the iteration budget", fmt.Sprintf("aborted after %d iterations", c.Ticks))
		}
		if c.Obs.Kind == "panic" {
			return mk("panic", "returns", c.Obs.Short())
		}
		// the property allows a low-order polynomial: a quadratic routine passes (its per-call bound is 64 * size^2), an
		// exponential one runs into this bound or into the iteration budget within a few doublings
		lim := int64(c09TickFactor)*int64(c.Size)*int64(c.Size) + c09TickSlack
		if c.Ticks > lim {
			return mk("too-many-iterations", fmt.Sprintf("at most %d loop iterations for a total size of %d", lim, c.Size), fmt.Sprintf("%d iterations", c.Ticks))
		}
		if prev >= 2000 && c.Ticks > 8*prev {
			return mk("super-cubic-growth", fmt.Sprintf("iterations(n=%d) <= 8 * iterations(n=%d) = %d", n, prevN, 8*prev), fmt.Sprintf("%d iterations", c.Ticks))
		}
		prev, prevN = c.Ticks, n
	}
	return nil
}

func c09RunGrowth(r *core.Run) {
	if !verifrt.Instrumented {
		r.InternalError("C09 needs the instrumented build")
		return
	}
	fams := c09Families()
	r.Bound("growth_families", len(fams))
	r.Bound("growth_sizes", "64, 128, ..., 4096 (thorough: 131072)")
	for i, f := range fams {
		if !r.Mine(i) {
			continue
		}
		if r.Expired() {
			return
		}
		r.Add("states", 1)
		if v := c09GrowthCheck(r, f, r.Thorough()); v != nil {
			r.Violate(v)
		}
		f := f
		r.Sample(func() any {
			e, _ := f.Build(64)
			return map[string]any{"family": f.Name, "expr_at_64": trunc(e, 80)}
		})
	}
}

// c09RunMany: one process evaluates 20000 (thorough: 200000) different expressions through Search and through Compile; the
// cost of a fixed probe, measured after every thousand, must not grow, and every call must return (a library that
// remembers expressions has to bound what it remembers without stopping the world).
func c09RunMany(r *core.Run) {
	if !verifrt.Instrumented {
		r.InternalError("C09 needs the instrumented build")
		return
	}
	n := 20000
	if r.Thorough() {
		n = 200000
	}
	r.Bound("distinct_expressions_in_one_process", n)
	d := map[string]any{"a": []any{json.Number("1")}}
	probe := "a[0]"
	first := c09Measure(probe, d, false)
	for i := 0; i < n; i++ {
		var e string
		switch i % 4 {
		case 0:
			e = fmt.Sprintf("f%d.g%d", i, i%7)
		case 1:
			e = fmt.Sprintf("length('s%d')", i)
		case 2:
			e = fmt.Sprintf("a[%d]", i)
		default:
			e = fmt.Sprintf("nosuch%d(", i) // does not parse
		}
		r.Begin(map[string]any{"expr": fmt.Sprintf("the %d-th distinct expression of this process: %s", i, e), "doc": `{"a":[1]}`})
		c := c09Measure(e, d, false)
		r.Eval(c.Obs)
		core.Compile(e)
		r.Add("transitions", 2)
		r.Add("states", 1)
		if c.Obs.Kind == "budget" || c.Obs.Kind == "panic" {
			r.Violate(&core.Violation{Sig: "C09/" + c.Obs.Kind + "/many-expressions", Desc: fmt.Sprintf("the %d-th distinct expression of the process", i),
				Point: map[string]any{"expr": "many", "doc": "", "family": "many-expressions", "kind": "many"}, Expected: "returns", Actual: c.Obs.Short()})
			return
		}
		if i%1000 == 999 {
			p := c09Measure(probe, d, false)
			if p.Ticks > 4*first.Ticks+64 {
				r.Violate(&core.Violation{Sig: "C09/cost-grows-with-history/many-expressions", Desc: fmt.Sprintf("Search(%q) after %d other expressions", probe, i+1),
					Point: map[string]any{"expr": "many", "doc": "", "family": "many-expressions", "kind": "many"}, Expected: fmt.Sprintf("about the %d iterations of the first call", first.Ticks), Actual: fmt.Sprintf("%d iterations", p.Ticks)})
				return
			}
		}
	}
}

func c09Judge(r *core.Run, phase string, pt map[string]any) *core.Violation {
	if v, ok := c09MoreJudge(r, pt); ok {
		return v
	}
	if pstr(pt, "kind") == "many" {
		sub := *r
		sub.Clusters = map[string]*core.Cluster{}
		sub.C = map[string]int64{}
		c09RunMany(&sub)
		for _, c := range sub.Clusters {
			return c.Min
		}
		return nil
	}
	e := pstr(pt, "expr")
	if strings.HasPrefix(e, "family:") {
		name := strings.TrimPrefix(strings.Fields(e)[0], "family:")
		for _, f := range c09Families() {
			if f.Name == name {
				return c09GrowthCheck(r, f, r.Thorough())
			}
		}
		return nil
	}
	c09Thorough = r.Thorough()
	d, dt := c09Doc(pstr(pt, "spec"))
	return c09Judge1(r, pstr(pt, "family"), e, d, dt, pstr(pt, "spec"))
}

// c09Doc rebuilds a document from its specification: "subject:<kind>:<n>", "num:<text>", "one" ({"a":[1]}) or "null".
func c09Doc(spec string) (any, string) {
	switch {
	case strings.HasPrefix(spec, "subject:"):
		f := strings.Split(spec, ":")
		n, _ := strconv.Atoi(f[2])
		subj, desc := c09Subject(f[1], n)
		return map[string]any{"x": subj}, `{"x": ` + desc + `}`
	case strings.HasPrefix(spec, "num:"):
		t := strings.TrimPrefix(spec, "num:")
		return map[string]any{"x": json.Number(t), "y": json.Number("1")}, fmt.Sprintf(`{"x": number text of %d bytes (%s...), "y": 1}`, len(t), trunc(t, 12))
	case spec == "one":
		return map[string]any{"a": []any{json.Number("1")}}, `{"a":[1]}`
	}
	return nil, "null"
}
