package props

import (
	"fmt"
	"strings"

	"github.com/woodsbury/jmespath/internal/verifmc/core"
)

// C17 — equivalent spellings agree (form G, metamorphic: implementation against
// itself, no reference model involved).

// identity instance kinds
//   eq      : lhs == rhs
//   prune   : lhs == rhs with nulls removed from the (array) result by the harness;
//             skipped when rhs fails with invalid-type and lhs is null (x is not an array)
//   concat  : lhs == concatenation of the results of parts (each a single-element multi-select)
//   objvals : lhs == rhs with nulls removed, only when guard evaluates to "object"
//   guarded : lhs == rhs unless guard evaluates to null

type c17Inst struct {
	Big    bool // evaluated on the documents with arrays of 130..300 elements
	Schema string
	Kind   string
	LHS    string
	RHS    string
	Parts  []string
	Guard  string
	Deep   bool // evaluated on the deep documents
}

var c17Sources = []string{"a", "b", "@", "a.b", "a[0]", "a.a", "[0]", "(a[*])", "(a[])", "(*)", "(a[?a])", "(a.*)", "[a,b]", "{k:a}.k",
	"`[1,null,[2,null],{\"a\":[1]}]`", "$.a", "(a[1:])", "(@)", "a[-1]", "not_null(a,b)"}
var c17Proj = []string{"[*]", "[]", "[?a]", "[?@]", "[1:]", "[::-1]", ".*", "[0:1]", "[?!a]", "[?@ == `null` || @]"}
var c17Steps = []string{".a", ".b", "[0]", "[-1]", "[*]", ".*", "[?a]", "[1:]", ".[a]", ".[a,b]", ".{k:a}", ".k"}
var c17Dotables = []string{"a", "b", "a.b", "a[0]", "[a]", "[a,b]", "{k:a}", `"a"`, "type(@)", "to_array(@)", "a[*]", "*", "a.*", "[a][0]", "b.type(@)", "a.to_array(@)", "b.not_null(@, 'd')", "[@]", "{v: @}", "a.[@]"}
var c17BracketRHS = []string{"[0]", "[1:]", "[?a]", "[?a].a[?a]", "[?a].b[?@]", "[?@].a[?b]", "[?a][?b]", "[*].a", "[?a].a.b", "[?a][0]", "[0][?a]", "[?a].a[0]", "[?a].*", "[?a].a[*].b", "[::-1][?a]", "[?!a].b[?@]"}
var c17Exprs = []string{"a", "b", "@", "a.b", "a[0]", "a[*]", "a.*", "`1`", "`null`", "'s'", "a || b", "a[?a]", "[a]", "length(@)", "$"}

// documents nested five and six levels deep, arrays and objects alternating in different ways, with nulls on the way
var c17DeepDocs = []string{
	`{"a":[[{"p":{"b":{"c":1},"a":{"a":{"a":1}}}}],[{"q":{"b":{"c":2}},"a":{"b":{"a":[7]}}}],[{"r":{"c":3}}],[]]}`,
	`{"a":[{"a":{"a":{"a":{"a":1},"b":[{"a":2}]},"b":{"a":{"b":3}}},"b":[[{"a":{"b":4}}]]},null,{"a":null},{"a":{"a":null}}]}`,
	`[[{"a":{"a":{"b":{"a":1}},"b":{"b":{"b":2}}},"b":{"a":{"a":{"a":3}}}}],[[{"a":{"a":{"a":4}}}]],null,[null]]`,
	`{"a":{"x":[{"a":{"b":[{"a":1},{"b":2}]}}],"y":[{"b":{"a":[[3]]}}],"z":null},"b":[[[[[5]]]]]}`,
	`{"a":[[[[[[1,null]]]]],[[{"a":[{"a":[{"b":1}]}]}]]]}`,
	`{"a":[{"a":[{"a":[{"a":[{"a":1,"b":2}],"b":{"a":{"a":3}}}],"b":[{"a":{"b":{"a":4}}}]}]},{"b":{"a":{"b":{"a":{"b":5}}}}}]}`,
	`{"a":[{"b":{"a":{"b":{"a":1}},"b":{"b":{"b":2}}}},{"b":{"a":{"b":null}}},{"a":{"b":{"a":{"b":[6]}}}}],"b":{"a":{"b":{"a":{"b":7}}}}}`,
	`[{"a":{"a":{"a":{"a":{"a":1}}}}},[{"b":{"b":{"b":{"b":2}}}}],{"a":[{"a":[{"a":[{"a":3}]}]}]}]`,
	`{"a":[{"b":[{"c":1,"d":[{"e":[1,2]},{"e":[3]}]},{"c":2,"d":[{"e":[4]}]}]},{"b":[{"c":3,"d":[{"e":[5,6]},{"e":[7]}]},{"c":4,"d":[]},{"c":5,"d":[{"e":[8]}]}]}]}`,
	`{"a":[[{"b":[[{"c":1,"d":[[{"e":[[1],[2]]}],[{"e":[[3]]}]]}],[{"c":2,"d":[[{"e":[[4]]}]]}]]}],[{"b":[[{"c":3,"d":[[{"e":[[5]]}]]}]]}]]}`,
}

func c17Chains(maxLen int) []string {
	var out []string
	var rec func(prefix string, n int)
	rec = func(prefix string, n int) {
		if n > 0 {
			out = append(out, prefix)
		}
		if n == maxLen {
			return
		}
		for _, s := range c17Steps {
			if n == 0 && strings.HasPrefix(s, ".[") || n == 0 && strings.HasPrefix(s, ".{") {
				// a multi-select as the first projected step meets null source elements,
				// which the property leaves open ("on a non-null current node")
				continue
			}
			rec(prefix+s, n+1)
		}
	}
	rec("", 0)
	return out
}

func c17Instances(thorough bool) []c17Inst {
	var out []c17Inst
	maxLen := 2
	if thorough {
		maxLen = 3
	}
	chains := c17Chains(maxLen)
	for _, x := range c17Sources {
		for _, t := range c17Proj {
			p := x + t
			for _, s := range chains {
				if strings.HasPrefix(t, "[?") && strings.Contains(s, "[?") {
					// the reference implementations give a filter a higher power than the stop power of a
					// filter projection, so x[?p].a[?q] groups as (x[?p].a)[?q]; the schema is not stated for it
					continue
				}
				g := ""
				if strings.Contains(t, ":") {
					g = "type(" + x + ")" // a slice of a string is a string, not a projection
				}
				// 1. a projection followed by selectors == the projected array piped into [*] + selectors
				out = append(out, c17Inst{Schema: "proj-then-selectors", Kind: "eq", LHS: p + s, RHS: p + " | [*]" + s, Guard: g})
				// 3. the same with the projection closed by parentheses
				out = append(out, c17Inst{Schema: "paren-proj-pipe", Kind: "eq", LHS: p + s, RHS: "(" + p + ") | [*]" + s, Guard: g})
			}
			// 0. a projection without selectors equals itself piped into [*] (for arrays; a string slice is a string)
			g0 := ""
			if strings.Contains(t, ":") {
				g0 = "type(" + x + ")"
			}
			out = append(out, c17Inst{Schema: "proj-is-own-wildcard", Kind: "arrayonly", LHS: p, RHS: p + " | [*]", Guard: g0})
			out = append(out, c17Inst{Schema: "proj-is-own-wildcard", Kind: "arrayonly", LHS: "(" + p + ")", RHS: "(" + p + ")[*]", Guard: g0})
			// 5. parenthesising or piping ends a projection
			for _, s := range []string{".a", "[0]", "[*]", ".*", "[?a]", "[1:]", "[]", "[-1]", ".b"} {
				out = append(out, c17Inst{Schema: "paren-closes", Kind: "eq", LHS: "(" + p + ")" + s, RHS: p + " | " + strings.TrimPrefix(s, ".")})
				for _, s1 := range []string{".a", "[0]", ".*"} {
					out = append(out, c17Inst{Schema: "paren-closes", Kind: "eq", LHS: "(" + p + s1 + ")" + s, RHS: p + s1 + " | " + strings.TrimPrefix(s, ".")})
				}
			}
		}
		// 2. x[*].e == map(&e, x) with nulls removed
		for _, e := range c17Dotables {
			out = append(out, c17Inst{Schema: "wildcard-is-map", Kind: "prune", LHS: x + "[*]." + e, RHS: "map(&" + e + ", " + x + ")"})
			// 4. a.b == a | b for a non-projection a (multi-selects only on a non-null left side)
			g := ""
			if strings.HasPrefix(e, "[") || strings.HasPrefix(e, "{") {
				g = x
			}
			out = append(out, c17Inst{Schema: "dot-is-pipe", Kind: "guarded", LHS: x + "." + e, RHS: x + " | " + e, Guard: g})
		}
		// 2b. the same for right-hand sides that start with a bracket: x[*]E == map(&E, x) with nulls removed - E stands at
		// the start of an expression on the right, so a filter or index in that position must parse as it does after x[*]
		for _, e := range c17BracketRHS {
			out = append(out, c17Inst{Schema: "wildcard-bracket-is-map", Kind: "prune", LHS: x + "[*]" + e, RHS: "map(&" + e + ", " + x + ")"})
			out = append(out, c17Inst{Schema: "bracket-after-pipe", Kind: "eq", LHS: "(" + x + ")" + e, RHS: x + " | " + e})
			out = append(out, c17Inst{Schema: "bracket-in-multiselect", Kind: "guarded", LHS: "[(" + x + ")" + e + "]", RHS: x + " | [" + e + "]", Guard: x})
		}
		// 1b. a filter guards what follows it: the right-hand side is evaluated only on the elements the filter keeps
		for _, g := range [][2]string{{"[?type(@) == 'string']", ".length(@)"}, {"[?type(@) == 'number']", ".abs(@)"}, {"[?type(@) == 'array']", ".sort(@)"}, {"[?type(a) == 'number']", ".ceil(a)"},
			{"[?type(@) == 'object']", ".keys(@)"}, {"[?type(@) != 'null' && type(@) != 'boolean' && type(@) != 'number']", ".length(@)"}, {"[?a]", ".[a][0]"}, {"[?type(@) == 'string']", ".[length(@), @]"}} {
			out = append(out, c17Inst{Schema: "filter-guards-rhs", Kind: "eq", LHS: x + g[0] + g[1], RHS: x + g[0] + " | [*]" + g[1]})
			out = append(out, c17Inst{Schema: "filter-guards-rhs", Kind: "prune", LHS: x + g[0] + g[1], RHS: "map(&" + strings.TrimPrefix(g[1], ".") + ", " + x + g[0] + ")"})
		}
		// 8. x.* == values(x) modulo nulls
		out = append(out, c17Inst{Schema: "star-is-values", Kind: "objvals", LHS: x + ".*", RHS: "values(" + x + ")", Guard: "type(" + x + ")"})
	}
	// 9. @.e == e, $.e == e at the top level, $ == @
	for _, e := range c17Dotables {
		g := ""
		if strings.HasPrefix(e, "[") || strings.HasPrefix(e, "{") {
			g = "@"
		}
		out = append(out, c17Inst{Schema: "current-dot", Kind: "guarded", LHS: "@." + e, RHS: e, Guard: g})
		out = append(out, c17Inst{Schema: "root-dot", Kind: "guarded", LHS: "$." + e, RHS: e, Guard: g})
		for _, t := range c17Proj {
			out = append(out, c17Inst{Schema: "current-proj", Kind: "eq", LHS: "@" + t, RHS: strings.TrimPrefix(t, ".")})
		}
		for _, e2 := range c17BracketRHS {
			out = append(out, c17Inst{Schema: "current-proj", Kind: "eq", LHS: "@" + e2, RHS: e2})
			out = append(out, c17Inst{Schema: "current-proj", Kind: "eq", LHS: "a | @" + e2, RHS: "a | " + e2})
		}
	}
	out = append(out, c17Inst{Schema: "root-is-current", Kind: "eq", LHS: "$", RHS: "@"})
	// 6/7. multi-select identities on a non-null current node
	for _, e1 := range c17Exprs {
		out = append(out, c17Inst{Schema: "hash-select", Kind: "guarded", LHS: "{k: " + e1 + "}.k", RHS: e1, Guard: "@"})
		out = append(out, c17Inst{Schema: "list-select", Kind: "guarded", LHS: "[" + e1 + "][0]", RHS: e1, Guard: "@"})
		for _, e2 := range c17Exprs {
			out = append(out, c17Inst{Schema: "list-concat", Kind: "concat", LHS: "[" + e1 + ", " + e2 + "]", Parts: []string{"[" + e1 + "]", "[" + e2 + "]"}, Guard: "@"})
			out = append(out, c17Inst{Schema: "hash-merge", Kind: "guarded", LHS: "{k: " + e1 + ", l: " + e2 + "}", RHS: "merge({k: " + e1 + "}, {l: " + e2 + "})", Guard: "@"})
			if thorough {
				for _, e3 := range c17Exprs[:6] {
					out = append(out, c17Inst{Schema: "list-concat", Kind: "concat", LHS: "[" + e1 + ", " + e2 + ", " + e3 + "]", Parts: []string{"[" + e1 + "]", "[" + e2 + "]", "[" + e3 + "]"}, Guard: "@"})
				}
			}
		}
	}
	// index boundaries: the same index written after an expression and after a pipe / parentheses / inside map
	for _, i := range []string{"0", "1", "126", "127", "128", "129", "200", "255", "256", "257", "299", "-1", "-128", "-129", "-200", "-256", "-300"} {
		for _, x := range []string{"big", "wide[0]", "wide[1]", "(big[*])", "big[*]", "{k: big}.k", "@.big", "wide[*]"} {
			closed := x
			if strings.HasSuffix(x, "[*]") && !strings.HasPrefix(x, "(") {
				closed = "(" + x + ")"
			}
			out = append(out, c17Inst{Big: true, Schema: "index-after-pipe", Kind: "eq", LHS: closed + "[" + i + "]", RHS: x + " | [" + i + "]"})
			out = append(out, c17Inst{Big: true, Schema: "index-in-projection", Kind: "eq", LHS: "wide[*][" + i + "]", RHS: "wide[*] | [*][" + i + "]"})
			out = append(out, c17Inst{Big: true, Schema: "index-in-map", Kind: "prune", LHS: "wide[*][" + i + "]", RHS: "map(&@[" + i + "], wide)"})
			out = append(out, c17Inst{Big: true, Schema: "wildcard-is-map", Kind: "prune", LHS: closed + "[*].abs(@)", RHS: "map(&abs(@), " + closed + ")"})
			out = append(out, c17Inst{Big: true, Schema: "wildcard-is-map", Kind: "prune", LHS: closed + "[*].[@][0]", RHS: "map(&[@][0], " + closed + ")"})
			out = append(out, c17Inst{Big: true, Schema: "wildcard-is-map", Kind: "prune", LHS: closed + "[*] | [-1]", RHS: "map(&@, " + closed + ") | [-1]"})
			out = append(out, c17Inst{Big: true, Schema: "map-length", Kind: "eq", LHS: "length(map(&@, " + closed + "))", RHS: "length(" + closed + ")", Guard: "type(" + closed + ")"})
			out = append(out, c17Inst{Big: true, Schema: "index-in-multiselect", Kind: "concat", LHS: "[" + closed + "[" + i + "], " + x + " | [" + i + "]]", Parts: []string{"[" + closed + "[" + i + "]]", "[" + x + " | [" + i + "]]"}, Guard: "@"})
		}
	}
	// deep chains: four and five selector steps after a projection, on documents nested deeply enough to answer them
	var deepChains []string
	var recDeep func(prefix string, n int)
	recDeep = func(prefix string, n int) {
		if n >= 3 {
			deepChains = append(deepChains, prefix)
		}
		if n == 5 {
			return
		}
		for _, st := range []string{".a", ".b", "[0]", ".*"} {
			recDeep(prefix+st, n+1)
		}
	}
	recDeep("", 0)
	for _, x := range []string{"a", "@", "a[0]", "[a][0]"} {
		for _, t := range []string{"[*]", "[]", ".*", "[?@]"} {
			for _, ch := range deepChains {
				out = append(out, c17Inst{Deep: true, Schema: "proj-then-selectors", Kind: "eq", LHS: x + t + ch, RHS: x + t + " | [*]" + ch})
				// ... and the chain may be cut anywhere: the first k steps, piped into a wildcard with the rest
				for cut := 1; cut < len(ch); cut++ {
					// (only before the chain starts a projection of its own: after that the remaining steps belong to the inner one)
					if (ch[cut] == '.' || ch[cut] == '[') && !strings.Contains(ch[:cut], "*") {
						out = append(out, c17Inst{Deep: true, Schema: "proj-chain-cut", Kind: "eq", LHS: x + t + ch, RHS: x + t + ch[:cut] + " | [*]" + ch[cut:]})
					}
				}
			}
		}
	}
	// wide and long expressions: a multi-select of n members, a chain of n pipes, n pairs of parentheses - an identity
	// holds for every n, so a limit that counts something other than what it means to bound shows as a failed instance
	for _, n := range []int{8, 63, 64, 65, 126, 127, 128, 129, 130, 255, 256, 257, 300} {
		for _, e := range []string{"a[*]", "a[?@]", "a[]", "a.*", "a[1:]", "a", "a[*].a", "@", "`1`", "a[*].a[]", "[a[*]]"} {
			members := make([]string, n)
			parts := make([]string, n)
			for k := range members {
				members[k] = e
				parts[k] = "[" + e + "]"
			}
			out = append(out, c17Inst{Deep: true, Schema: "list-concat-wide", Kind: "concat", LHS: "[" + strings.Join(members, ", ") + "]", Parts: parts, Guard: "@"})
			out = append(out, c17Inst{Deep: true, Schema: "pipe-chain-long", Kind: "eq", LHS: e + strings.Repeat(" | [*]", n), RHS: e + " | [*]"})
			out = append(out, c17Inst{Deep: true, Schema: "paren-closes-deep", Kind: "eq", LHS: strings.Repeat("(", n) + e + strings.Repeat(")", n) + ".a", RHS: "(" + e + ") | a"})
			out = append(out, c17Inst{Deep: true, Schema: "or-chain-long", Kind: "eq", LHS: strings.Repeat("missing[*] || ", n) + e, RHS: e})
		}
	}
	// a projection whose right-hand side holds further projections of the same kind (inside a multi-select, a filter or
	// an argument), after an earlier projection of that kind has already run: results collected in a buffer that the
	// nested evaluation shares would be overwritten
	// (a filter projection as the outer one is left out: a later filter in its right-hand side applies to the whole projection, see the corrections)
	for _, p1 := range []string{"[]", "[*]", "[0:]"} {
		for _, p2 := range []string{"[]", "[*]", "[?@]", "[0:]"} {
			for _, p3 := range []string{"[]", "[*]", "[?@]"} {
				for _, e := range []string{".{k: c, l: d" + p3 + ".e}", ".[d" + p3 + ".e, c]", ".[d" + p3 + ".e]", ".{l: d" + p3 + ".e" + p3 + "}", "[?d" + p3 + ".e].c", ".length(d" + p3 + ".e)", ".{k: c, l: d" + p3 + ".e" + p3 + ".{v: @}}"} {
					x := "a" + p1 + ".b" + p2
					out = append(out, c17Inst{Deep: true, Schema: "nested-projections", Kind: "eq", LHS: x + e, RHS: "a" + p1 + " | [*].b" + p2 + e})
					out = append(out, c17Inst{Deep: true, Schema: "nested-projections-after-another", Kind: "eq", LHS: "[a" + p1 + ".b, " + x + e + "][1]", RHS: "a" + p1 + " | [*].b" + p2 + e})
					out = append(out, c17Inst{Deep: true, Schema: "nested-projections-map", Kind: "prune", LHS: "(" + x + ")[*]" + e, RHS: "map(&@" + e + ", " + x + ")"})
				}
			}
		}
	}
	// dedupe
	seen := map[string]bool{}
	var uniq []c17Inst
	for _, i := range out {
		k := i.Schema + "\x00" + i.LHS + "\x00" + i.RHS + "\x00" + strings.Join(i.Parts, "\x00")
		if !seen[k] {
			seen[k] = true
			uniq = append(uniq, i)
		}
	}
	return uniq
}

func init() {
	core.Register(&core.Check{
		ID:    "C17",
		Title: "equivalent spellings agree",
		Rule: "every instantiation of the identity schemata (projection + selectors vs piped projection, x[*].e vs map, parenthesised/piped projections, a.b vs a|b, multi-select concatenation and merge, x.* vs values, @.e/$.e vs e) " +
			"with sub-expressions from the stated menus is evaluated in both spellings on every document of the C01 alphabet; the two observations of the implementation must be equal; instances are enumerated without repetition; " +
			"non-trivial = both sides yield a non-null, non-empty value; distinct_nontrivial counts distinct such outcomes",
		Phases: []core.Phase{{Name: "identities", Build: "instr", Fn: c17Run}},
		Judge:  c17Judge,
		Assumptions: []string{
			"object members are enumerated in sorted key order (map-order seam), so that x.* and values(x) are comparable element by element",
			"identities that meet a null current node in a multi-select are excluded, as the property states them for a non-null current node",
		},
	})
}

type c17Prepared struct {
	inst  c17Inst
	lhs   *compiled
	rhs   *compiled
	parts []*compiled
	guard *compiled
}

func c17Prepare(i c17Inst) *c17Prepared {
	p := &c17Prepared{inst: i, lhs: prepareImpl(i.LHS)}
	if i.RHS != "" {
		p.rhs = prepareImpl(i.RHS)
	}
	for _, s := range i.Parts {
		p.parts = append(p.parts, prepareImpl(s))
	}
	if i.Guard != "" {
		p.guard = prepareImpl(i.Guard)
	}
	return p
}

// prepareImpl compiles only the implementation side.
func prepareImpl(text string) *compiled {
	c := &compiled{Text: text}
	c.Expr, c.CompObs = core.Compile(text)
	return c
}

func pruneNulls(v any) any {
	a, ok := v.([]any)
	if !ok {
		return v
	}
	out := make([]any, 0, len(a))
	for _, e := range a {
		if e != nil {
			out = append(out, e)
		}
	}
	return out
}

// c17Check evaluates one instance on one document; it returns the two keys and
// whether the instance was judged.
func (p *c17Prepared) check(r *core.Run, d doc) (lhs, rhs core.Obs, judged bool) {
	i := p.inst
	if p.guard != nil {
		g := p.guard.run(d.Raw)
		r.Add("evaluations", 1)
		switch {
		case i.Kind == "objvals":
			if g.Kind != "ok" || g.Val != "object" {
				return lhs, rhs, false
			}
		case strings.HasPrefix(i.Guard, "type("):
			if g.Kind != "ok" || g.Val == "string" {
				return lhs, rhs, false
			}
		default:
			if g.Kind != "ok" || g.Val == nil {
				return lhs, rhs, false
			}
		}
	}
	lhs = p.lhs.run(d.Raw)
	r.Eval(lhs)
	switch i.Kind {
	case "concat":
		var all []any
		for _, part := range p.parts {
			o := part.run(d.Raw)
			r.Add("evaluations", 1)
			if o.Kind != "ok" {
				return lhs, o, lhs.Key() != o.Key()
			}
			a, ok := o.Val.([]any)
			if !ok {
				return lhs, o, true
			}
			all = append(all, a...)
		}
		rhs = core.Obs{Kind: "ok", Val: all, Raw: all}
		return lhs, rhs, true
	}
	rhs = p.rhs.run(d.Raw)
	r.Add("evaluations", 1)
	switch i.Kind {
	case "arrayonly":
		if lhs.Kind == "ok" {
			if _, isArr := lhs.Val.([]any); !isArr && lhs.Val != nil {
				return lhs, rhs, false
			}
		}
	case "prune":
		if rhs.Kind == "err" && len(rhs.Cats) == 1 && rhs.Cats[0] == "invalid-type" && lhs.Kind == "ok" && lhs.Val == nil {
			return lhs, rhs, false // x is not an array
		}
		if rhs.Kind == "ok" {
			rhs.Val = pruneNulls(rhs.Val)
		}
	case "objvals":
		if rhs.Kind == "ok" {
			rhs.Val = pruneNulls(rhs.Val)
		}
	}
	return lhs, rhs, true
}

func c17Run(r *core.Run) {
	insts := c17Instances(r.Thorough())
	docs := c01Docs(r.Thorough())
	seq := func(n int) string {
		parts := make([]string, n)
		for i := range parts {
			parts[i] = fmt.Sprint(i)
		}
		return "[" + strings.Join(parts, ",") + "]"
	}
	bigDocs := []doc{mkDoc(`{"big":` + seq(300) + `,"wide":[` + seq(300) + `,` + seq(130) + `]}`), mkDoc(`{"big":` + seq(256) + `,"wide":[` + seq(129) + `,` + seq(128) + `]}`), mkDoc(`{"big":[1],"wide":[[1],null]}`),
		mkDoc(`{"big":` + seq(66) + `,"wide":[` + seq(65) + `,` + seq(67) + `]}`), mkDoc(`{"big":` + seq(1027) + `,"wide":[` + seq(69) + `,` + seq(1030) + `]}`)}
	var deepDocs []doc
	for _, t := range c17DeepDocs {
		deepDocs = append(deepDocs, mkDoc(t))
	}
	r.Bound("identity_instances", len(insts))
	r.Bound("documents", len(docs))
	r.Bound("sources", len(c17Sources))
	r.Bound("projection_kinds", c17Proj)
	for n, inst := range insts {
		if !r.Mine(n) {
			continue
		}
		if r.Expired() {
			break
		}
		p := c17Prepare(inst)
		r.Add("states", 1)
		ds := docs
		if inst.Big {
			ds = bigDocs
		}
		if inst.Deep {
			ds = deepDocs
		}
		for di, d := range ds {
			r.Begin(map[string]any{"lhs": inst.LHS, "rhs": inst.RHS, "doc": d.Text})
			lhs, rhs, judged := p.check(r, d)
			if !judged {
				r.AbstainOn("guard of schema " + inst.Schema + " not met")
				continue
			}
			r.Add("transitions", 1)
			if di%131 == 0 {
				r.Sample(func() any {
					return map[string]any{"schema": inst.Schema, "lhs": inst.LHS, "rhs": inst.RHS + strings.Join(inst.Parts, " ++ "), "doc": d.Text, "outcome": lhs.Short()}
				})
			}
			if lhs.Key() != rhs.Key() {
				r.Violate(c17Violation(inst, d.Text, lhs, rhs))
			}
		}
	}
}

func c17Violation(inst c17Inst, docText string, lhs, rhs core.Obs) *core.Violation {
	rhsText := inst.RHS
	if len(inst.Parts) > 0 {
		rhsText = strings.Join(inst.Parts, " ++ ")
	}
	kind := "different-values"
	if lhs.Kind != rhs.Kind {
		kind = lhs.Kind + "-vs-" + rhs.Kind
	}
	return &core.Violation{
		Sig:  "C17/" + inst.Schema + "/" + kind + "/" + c17Shape(inst.LHS),
		Desc: fmt.Sprintf("%s: Search(%q) vs Search(%q) on %s", inst.Schema, inst.LHS, rhsText, docText),
		Point: map[string]any{"schema": inst.Schema, "kind": inst.Kind, "lhs": inst.LHS, "rhs": inst.RHS, "parts": inst.Parts, "guard": inst.Guard,
			"doc": docText, "expr": inst.LHS},
		Expected: "same outcome as the other spelling: " + rhs.Short(),
		Actual:   lhs.Short(),
	}
}

// c17Shape abstracts identifiers away so that one defect forms one cluster.
func c17Shape(e string) string {
	r := strings.NewReplacer("a", "x", "b", "x", "k", "x")
	s := r.Replace(e)
	if len(s) > 40 {
		s = s[:40]
	}
	return s
}

func c17Judge(r *core.Run, phase string, pt map[string]any) *core.Violation {
	inst := c17Inst{Schema: pstr(pt, "schema"), Kind: pstr(pt, "kind"), LHS: pstr(pt, "lhs"), RHS: pstr(pt, "rhs"), Guard: pstr(pt, "guard")}
	if ps, ok := pt["parts"].([]any); ok {
		for _, x := range ps {
			if s, ok := x.(string); ok {
				inst.Parts = append(inst.Parts, s)
			}
		}
	}
	d := mkDoc(pstr(pt, "doc"))
	lhs, rhs, judged := c17Prepare(inst).check(r, d)
	if !judged || lhs.Key() == rhs.Key() {
		return nil
	}
	return c17Violation(inst, d.Text, lhs, rhs)
}
