package props

import (
	"fmt"
	"math"
	"strconv"

	"github.com/woodsbury/jmespath/internal/verifmc/core"
)

// C12 — slices select exactly the elements of the specified start:stop:step walk.
//
// State space: (n, start, stop, step, subject kind, syntactic form); every point
// is executed on the real code and compared with the specification's slice
// algorithm (Python's slice.indices walk) computed without overflow.

const c12TickBudget = 100000 // loop iterations inside the library per call; legitimate work here is < 100

const absent = "" // an omitted slice part

var c12Mixed = []rune("aé€😀b\ufffd漢𝄞cßд🙂zあ\u0301q")
var c12Ascii = []rune("abcdefghijklmnop")

var c12Subjects = []string{"array", "objarray", "nested", "ascii", "mixed", "number", "object", "null"}
var c12Forms = []string{"field", "current", "dot-k", "index0", "pipe0", "flatten", "paren", "then-reverse", "then-step2", "multi", "in-wildcard", "in-flatten", "in-filter", "in-slice", "in-wildcard-nulls", "in-hash", "in-hash-nested", "in-arg", "in-let", "holes-then-all", "pipe", "pipe-in-wildcard"}

func init() {
	core.Register(&core.Check{
		ID:    "C12",
		Title: "slices select exactly the specified walk",
		Rule: "every (length n, start, stop, step, subject kind, syntactic form) in the stated ranges is executed once through Search on the real code and compared with " +
			"the specification's slice walk (Python slice.indices) computed overflow-free; inputs are enumerated without repetition; an outcome is non-trivial when it is " +
			"a non-empty, non-null value, and distinct_nontrivial counts distinct such outcomes",
		Phases: []core.Phase{{Name: "walk", Build: "instr", Fn: c12Run}, {Name: "long-subjects", Build: "instr", Fn: c12RunLong}},
		Judge:  func(r *core.Run, phase string, p map[string]any) *core.Violation { return c12Judge(r, p) },
		Assumptions: []string{
			"integer literals are within the 64-bit range (larger literals are outside the stated quantifier)",
			"the oracle is the slice algorithm of the JMESPath specification, transcribed from Python's slice.indices",
		},
	})
}

func c12Values(n int, thorough bool) []string {
	vals := []string{absent}
	for i := -(n + 2); i <= n+2; i++ {
		vals = append(vals, strconv.Itoa(i))
	}
	ext := []int64{1 << 31, -(1 << 31), 1 << 62, -(1 << 62), math.MaxInt64, math.MinInt64}
	if thorough {
		ext = append(ext, 1<<32, -(1 << 32), math.MaxInt64-1, math.MinInt64+1, 255, 256, -255, -256)
	}
	for _, e := range ext {
		vals = append(vals, strconv.FormatInt(e, 10))
	}
	// legal spellings with leading zeros (decimal, never octal)
	vals = append(vals, "010", "08", "-09", "00", "-0")
	return vals
}

func c12Steps(n int, thorough bool) []string {
	seen := map[string]bool{}
	var out []string
	add := func(s string) {
		if !seen[s] {
			seen[s] = true
			out = append(out, s)
		}
	}
	add(absent)
	add("0")
	for _, k := range []int{1, 2, 3, n - 1, n, n + 1} {
		if k > 0 {
			add(strconv.Itoa(k))
			add(strconv.Itoa(-k))
		}
	}
	for _, e := range []int64{1 << 31, -(1 << 31), 1 << 62, -(1 << 62), math.MaxInt64, math.MinInt64} {
		add(strconv.FormatInt(e, 10))
	}
	add("010")
	add("08")
	add("-09")
	add("00")
	add("-0")
	if thorough {
		for k := 4; k <= n+2; k++ {
			add(strconv.Itoa(k))
			add(strconv.Itoa(-k))
		}
		add("-9223372036854775807")
	}
	return out
}

func c12Run(r *core.Run) {
	core.EnableTicks(c12TickBudget)
	r.Bound("tick_budget_per_call", c12TickBudget)
	maxN := 6
	if r.Thorough() {
		maxN = 16
	}
	r.Bound("max_length", maxN)
	r.Bound("subjects", c12Subjects)
	r.Bound("forms", c12Forms)
	item := 0
	for n := 0; n <= maxN; n++ {
		vals := c12Values(n, r.Thorough())
		steps := c12Steps(n, r.Thorough())
		r.Bound(fmt.Sprintf("n=%d", n), fmt.Sprintf("%d start/stop values x %d steps", len(vals), len(steps)))
		for _, start := range vals {
			for _, stop := range vals {
				item++
				if !r.Mine(item) {
					continue
				}
				if r.Expired() {
					return
				}
				for _, step := range steps {
					for _, colon2 := range []bool{false, true} {
						if step != absent && !colon2 {
							continue
						}
						for _, subj := range c12Subjects {
							for _, form := range c12Forms {
								p := map[string]any{"n": n, "start": start, "stop": stop, "step": step, "colon2": colon2, "subject": subj, "form": form}
								r.Add("states", 1)
								r.Violate(c12Judge(r, p))
							}
						}
					}
				}
			}
		}
	}
}

// c12RunLong: subjects longer than any compact representation a parser or evaluator might use for small bounds (255,
// 256, 257, 300 elements) with the bounds around those sizes.
func c12RunLong(r *core.Run) {
	core.EnableTicks(c12TickBudget * 10)
	item := 0
	for _, n := range []int{255, 256, 257, 300} {
		vals := []string{absent, "0", "1", "2", "127", "128", "250", "254", "255", "256", "257", "258", "299", "300", "301", "-1", "-2", "-44", "-255", "-256", "-257", "-300", "-301", "65535", "65536"}
		for _, start := range vals {
			for _, stop := range vals {
				item++
				if !r.Mine(item) {
					continue
				}
				if r.Expired() {
					return
				}
				for _, step := range []string{absent, "1", "2", "-1", "255", "256", "-256"} {
					for _, subj := range []string{"array", "ascii", "mixed", "objarray"} {
						for _, form := range []string{"field", "current", "pipe", "pipe-in-wildcard", "in-wildcard", "dot-k", "then-reverse", "in-hash", "holes-then-all"} {
							p := map[string]any{"n": n, "start": start, "stop": stop, "step": step, "colon2": step != absent, "subject": subj, "form": form}
							r.Add("states", 1)
							r.Violate(c12Judge(r, p))
						}
					}
				}
			}
		}
	}
}

// c12Walk is the specification's algorithm; parts are decimal text or absent.
func c12Walk(n int, startS, stopS, stepS string) (idx []int, stepZero bool) {
	step := int64(1)
	if stepS != absent {
		step, _ = strconv.ParseInt(stepS, 10, 64)
	}
	if step == 0 {
		return nil, true
	}
	N := int64(n)
	var lower, upper int64
	if step > 0 {
		lower, upper = 0, N
	} else {
		lower, upper = -1, N-1
	}
	clamp := func(s string, dflt int64) int64 {
		if s == absent {
			return dflt
		}
		v, _ := strconv.ParseInt(s, 10, 64)
		if v < 0 {
			w := v + N // v < 0 <= N: cannot overflow
			if w < lower {
				w = lower
			}
			return w
		}
		if v > upper {
			return upper
		}
		return v
	}
	var start, stop int64
	if step > 0 {
		start, stop = clamp(startS, lower), clamp(stopS, upper)
		for i := start; i < stop; {
			idx = append(idx, int(i))
			if step > N { // avoid overflow: next index is beyond stop anyway
				break
			}
			i += step
		}
	} else {
		start, stop = clamp(startS, upper), clamp(stopS, lower)
		for i := start; i > stop; {
			idx = append(idx, int(i))
			if step < -N-1 {
				break
			}
			i += step
		}
	}
	return idx, false
}

func c12Build(p map[string]any) (expr string, doc any, exp expectation, abstain string) {
	n := pint(p, "n")
	start, stop, step := pstr(p, "start"), pstr(p, "stop"), pstr(p, "step")
	subj, form := pstr(p, "subject"), pstr(p, "form")
	sl := "[" + start + ":" + stop
	if pbool(p, "colon2") {
		sl += ":" + step
	}
	sl += "]"

	idx, stepZero := c12Walk(n, start, stop, step)

	// subject value and the expected slice of it
	var subject any
	var sliced any // expected value of the bare slice
	isArray, isString := false, false
	elem := func(i int) any {
		switch subj {
		case "objarray":
			return map[string]any{"k": core.Norm(int64(i))}
		case "nested":
			return []any{core.Norm(int64(i)), core.Norm(int64(i + 100))}
		}
		return core.Norm(int64(i))
	}
	rawElem := func(i int) any {
		switch subj {
		case "objarray":
			return map[string]any{"k": int64(i)}
		case "nested":
			return []any{int64(i), int64(i + 100)}
		}
		return int64(i)
	}
	switch subj {
	case "array", "objarray", "nested":
		isArray = true
		a := make([]any, n)
		for i := range a {
			a[i] = rawElem(i)
		}
		subject = a
		out := make([]any, 0, len(idx))
		for _, i := range idx {
			out = append(out, elem(i))
		}
		sliced = out
	case "ascii", "mixed":
		isString = true
		src := c12Ascii
		if subj == "mixed" {
			src = c12Mixed
		}
		at := func(i int) rune { return src[i%len(src)] } // longer subjects repeat the alphabet
		whole := make([]rune, n)
		for i := range whole {
			whole[i] = at(i)
		}
		subject = string(whole)
		var rs []rune
		for _, i := range idx {
			rs = append(rs, at(i))
		}
		sliced = string(rs)
	case "number":
		subject = int64(5)
		sliced = nil
	case "object":
		subject = map[string]any{"k": int64(1)}
		sliced = nil
	case "null":
		subject = nil
		sliced = nil
	}

	var want any
	switch form {
	case "field":
		expr, doc = "x"+sl, map[string]any{"x": subject}
		want = sliced
	case "current":
		expr, doc = sl, subject
		want = sliced
	case "paren":
		expr, doc = "(x"+sl+")", map[string]any{"x": subject}
		want = sliced
	case "dot-k":
		expr, doc = "x"+sl+".k", map[string]any{"x": subject}
		if isArray {
			out := []any{}
			if subj == "objarray" {
				for _, i := range idx {
					out = append(out, core.Norm(int64(i)))
				}
			}
			want = out
		} else {
			want = nil // a string (or null) has no member k
		}
	case "index0":
		expr, doc = "x"+sl+"[0]", map[string]any{"x": subject}
		if isArray {
			out := []any{}
			if subj == "nested" {
				for _, i := range idx {
					out = append(out, core.Norm(int64(i)))
				}
			}
			want = out
		} else {
			want = nil
		}
	case "pipe0":
		expr, doc = "x"+sl+" | [0]", map[string]any{"x": subject}
		if isArray && len(idx) > 0 {
			want = elem(idx[0])
		} else {
			want = nil
		}
	case "then-reverse", "then-step2":
		// a second, stepped slice inside the first one's right-hand side: applied to every element of an array slice,
		// to the sliced string of a string slice
		second := "[::-1]"
		if form == "then-step2" {
			second = "[::2]"
		}
		expr, doc = "x"+sl+second, map[string]any{"x": subject}
		switch {
		case isArray:
			out := []any{}
			if subj == "nested" {
				for _, i := range idx {
					if form == "then-reverse" {
						out = append(out, []any{core.Norm(int64(i + 100)), core.Norm(int64(i))})
					} else {
						out = append(out, []any{core.Norm(int64(i))})
					}
				}
			}
			want = out
		case isString:
			rs := []rune(sliced.(string))
			var out []rune
			if form == "then-reverse" {
				for i := len(rs) - 1; i >= 0; i-- {
					out = append(out, rs[i])
				}
			} else {
				for i := 0; i < len(rs); i += 2 {
					out = append(out, rs[i])
				}
			}
			want = string(out)
		default:
			want = nil
		}
	case "multi":
		// two slices side by side and one on the current node inside a multi-select
		expr, doc = "x.["+sl+", [::-1]] | [0]", map[string]any{"x": subject}
		if subject == nil {
			want = nil
		} else {
			want = sliced
			if isArray {
				// a bare array slice is a projection: nulls are omitted (there are none here)
				want = sliced
			}
		}
	case "pipe", "pipe-in-wildcard":
		// the slice applied to the current node: after a pipe, and as the first step of a wildcard's right-hand side
		if form == "pipe" {
			expr, doc = "x | "+sl, map[string]any{"x": subject}
			want = sliced
		} else {
			expr, doc = "w[*]"+sl, map[string]any{"w": []any{subject}}
			switch {
			case isArray || isString:
				want = []any{sliced}
			default:
				want = []any{}
			}
		}
	case "holes-then-all":
		// the array has a null at every other position; the slice omits them from its own result and leaves the array alone
		expr = "[x" + sl + ", x, x" + sl + "]"
		if isArray {
			holes := make([]any, n)
			normHoles := make([]any, n)
			inner := []any{}
			for i := range holes {
				if i%2 == 0 {
					holes[i] = rawElem(i)
					normHoles[i] = elem(i)
				}
			}
			for _, i := range idx {
				if i%2 == 0 {
					inner = append(inner, elem(i))
				}
			}
			doc = map[string]any{"x": holes}
			want = []any{inner, normHoles, inner}
		} else {
			doc = map[string]any{"x": subject}
			want = []any{sliced, core.Norm(subject), sliced}
		}
	case "in-hash", "in-hash-nested", "in-arg", "in-let":
		// the slice inside another construct: same value, and a zero step is still reported as an invalid value
		switch form {
		case "in-hash":
			expr = "{v: x" + sl + ", w: `1`}.v"
		case "in-hash-nested":
			expr = "{p: {q: x" + sl + "}}.p.q"
		case "in-arg":
			expr = "not_null(x" + sl + ", `7`)"
		case "in-let":
			expr = "let $s = x" + sl + " in $s"
		}
		doc = map[string]any{"x": subject}
		want = sliced
		if form == "in-arg" && sliced == nil {
			want = core.Norm(int64(7))
		}
	case "in-wildcard", "in-flatten", "in-filter", "in-slice":
		// the slice is the first step of another projection's right-hand side and is followed by a field: it starts a
		// projection of its own over every element the outer projection hands it
		pre := map[string]string{"in-wildcard": "w[*]", "in-flatten": "w[]", "in-filter": "w[?`true`]", "in-slice": "w[0:]"}[form]
		expr = pre + sl + ".k"
		if form == "in-flatten" {
			doc = map[string]any{"w": []any{[]any{subject}, []any{subject}}}
		} else {
			doc = map[string]any{"w": []any{subject, subject}}
		}
		if isArray {
			inner := []any{}
			if subj == "objarray" {
				for _, i := range idx {
					inner = append(inner, core.Norm(int64(i)))
				}
			}
			want = []any{inner, inner}
		} else {
			want = []any{} // the slice of a string is a string, of anything else null: no member k, dropped
		}
	case "in-wildcard-nulls":
		// nothing follows the inner slice, and every other element of the array is null: the inner projection omits them
		expr = "w[*]" + sl
		switch {
		case isArray:
			holes := make([]any, n)
			inner := []any{}
			for i := range holes {
				if i%2 == 0 {
					holes[i] = rawElem(i)
				}
			}
			for _, i := range idx {
				if i%2 == 0 {
					inner = append(inner, elem(i))
				}
			}
			doc = map[string]any{"w": []any{holes}}
			want = []any{inner}
		case isString:
			doc = map[string]any{"w": []any{subject}}
			want = []any{sliced}
		default:
			doc = map[string]any{"w": []any{subject}}
			want = []any{}
		}
	case "flatten":
		expr, doc = "x"+sl+"[]", map[string]any{"x": subject}
		if isArray {
			out := []any{}
			for _, i := range idx {
				if subj == "nested" {
					out = append(out, core.Norm(int64(i)), core.Norm(int64(i+100)))
				} else {
					out = append(out, elem(i))
				}
			}
			want = out
		} else {
			want = nil
		}
	}
	_ = isString
	if stepZero {
		return expr, doc, expectation{Cats: []string{"invalid-value"}}, ""
	}
	return expr, doc, expectation{Val: want}, ""
}

func c12Judge(r *core.Run, p map[string]any) *core.Violation {
	expr, doc, exp, abstain := c12Build(p)
	if abstain != "" {
		r.AbstainOn(abstain)
		return nil
	}
	core.EnableTicks(c12TickBudget)
	r.Begin(p)
	o := core.Search(expr, doc)
	r.Eval(o)
	r.Add("transitions", 1)
	r.Sample(func() any { return map[string]any{"expr": expr, "doc": jsonText(doc), "outcome": o.Short()} })
	k := diffKind(o, exp)
	if k == "" {
		return nil
	}
	stepSign := "pos"
	if s := pstr(p, "step"); len(s) > 0 && s[0] == '-' {
		stepSign = "neg"
	} else if s == "0" || s == "-0" || s == "00" {
		stepSign = "zero"
	}
	q := map[string]any{}
	for k, v := range p {
		q[k] = v
	}
	q["expr"], q["doc"] = expr, jsonText(doc)
	return &core.Violation{
		Sig:      fmt.Sprintf("C12/%s/%s/step-%s/%s", pstr(p, "subject"), pstr(p, "form"), stepSign, k),
		Desc:     fmt.Sprintf("Search(%q, %s)", expr, jsonText(doc)),
		Point:    q,
		Expected: exp.String(),
		Actual:   o.Short(),
	}
}
