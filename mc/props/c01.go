package props

import (
	"fmt"
	"strings"

	"github.com/woodsbury/jmespath/internal/verifmc/core"
	"github.com/woodsbury/jmespath/internal/verifmc/ref"
)

// C01 — core queries return the specified value (form G, differential vs the
// reference model). One symbol per fused token and per fused AST node.

var c01Starts = []menuItem{
	{"a", "a"}, {"b", "b"}, {"qa", `"a"`}, {"cur", "@"}, {"root", "$"}, {"star", "*"}, {"lwild", "[*]"}, {"flat", "[]"},
	{"i0", "[0]"}, {"im1", "[-1]"}, {"sl1", "[1:]"}, {"filt", "[?a]"}, {"ms1", "[a]"}, {"ms2", "[a,b]"},
	{"mh1", "{k:a}"}, {"mh2", "{k:a,l:b}"}, {"lnull", "`null`"}, {"larr", "`[1,null]`"}, {"lobj", "`{\"a\":null}`"}, {"raw", "'s'"},
	{"i300", "[300]"},
}

var c01Steps = []menuItem{
	{".a", ".a"}, {".b", ".b"}, {"[0]", "[0]"}, {"[-1]", "[-1]"}, {"[*]", "[*]"}, {".*", ".*"}, {"[]", "[]"},
	{"[?a]", "[?a]"}, {"[?a==1]", "[?a==`1`]"}, {"[?@]", "[?@]"}, {"[1:]", "[1:]"}, {"[::-1]", "[::-1]"},
	{".[a]", ".[a]"}, {".[a,b]", ".[a,b]"}, {".{k:a}", ".{k:a}"}, {".{k:a,l:b}", ".{k:a,l:b}"},
	{"|a", " | a"}, {"|[0]", " | [0]"}, {"|[*]", " | [*]"}, {"|@", " | @"}, {"|$", " | $"},
	{".[@]", ".[@]"}, {".[$.a]", ".[$.a]"}, {"[?@==$.a]", "[?@ == $.a]"}, {".k", ".k"}, {".[*]", ".[*]"}, {"[?!a]", "[?!a]"}, {"[:-2:-1]", "[:-2:-1]"}, {"[-2::-1]", "[-2::-1]"},
}

// the alphabet of the deep chains: selectors whose interaction inside a projection's right-hand side only shows after
// several steps (a wildcard after a bracket after a wildcard, two fields after a nested wildcard, ...)
var c01Deep = []string{".a", "[0]", ".*", "[*]", "[?a]"}

// the sub-menu used for the longest chains: one step per projection kind and
// the selectors that interact with projection right-hand sides
var c01Core = []string{".a", "[0]", "[*]", ".*", "[]", "[?a]", "[1:]", ".[a]", ".{k:a}", "|[0]"}

type c01Expr struct {
	Text  string
	Shape string
}

func c01Expressions(thorough bool) []c01Expr {
	var out []c01Expr
	seen := map[string]bool{}
	add := func(text, shape string) {
		if !seen[text] {
			seen[text] = true
			out = append(out, c01Expr{text, shape})
		}
	}
	coreSet := map[string]bool{}
	for _, n := range c01Core {
		coreSet[n] = true
	}
	fullDepth, coreDepth := 2, 3
	if thorough {
		fullDepth, coreDepth = 3, 4
	}
	coreStarts := map[string]bool{"a": true, "cur": true, "star": true, "lwild": true, "flat": true, "sl1": true, "filt": true, "ms1": true, "mh1": true, "larr": true}
	var chain func(start menuItem, text, shape string, depth int, onlyCore bool)
	chain = func(start menuItem, text, shape string, depth int, onlyCore bool) {
		add(text, shape)
		if depth >= coreDepth {
			return
		}
		for _, st := range c01Steps {
			isCore := coreSet[st.Name]
			if depth >= fullDepth && !(onlyCore && isCore && (thorough || coreStarts[start.Name])) {
				continue
			}
			chain(start, text+st.Text, shape+" "+st.Name, depth+1, onlyCore && isCore)
			// a parenthesised prefix is closed: nothing inside continues outside
			if depth >= 1 && depth < fullDepth && (thorough || onlyCore) {
				chain(start, "("+text+")"+st.Text, "("+shape+") "+st.Name, depth+1, false)
			}
		}
	}
	for _, s := range c01Starts {
		chain(s, s.Text, s.Name, 0, true)
	}
	// deep chains over a five-symbol alphabet
	deepMax := 5
	if thorough {
		deepMax = 6
	}
	for _, start := range []string{"a", "@", "[*]", "*"} {
		var deep func(text, shape string, n int)
		deep = func(text, shape string, n int) {
			if n >= 4 {
				add(text, shape)
			}
			if n == deepMax {
				return
			}
			for _, st := range c01Deep {
				deep(text+st, shape+" "+st, n+1)
			}
		}
		deep(start, "deep "+start, 0)
	}
	// index boundaries (the compact index node holds 0..255): evaluated on 300-element arrays as well
	for _, i := range []string{"126", "127", "128", "129", "200", "254", "255", "256", "257", "299", "300", "-1", "-127", "-128", "-129", "-255", "-256", "-257", "-300", "-301"} {
		for _, form := range []string{"[%s]", "big[%s]", "big | [%s]", "(big)[%s]", "big[*] | [%s]", "wide[*][%s]", "wide[0][%s]", "big[%s:]", "big[:%s] | length(@)", "[big[%s], big | [%s]]", "map(&@[%s], wide)", "{k: big}.k[%s]"} {
			add(strings.ReplaceAll(form, "%s", i), "index-boundary "+form)
		}
	}
	// operators over short operands
	operands := []string{"a", "b", "a.b", "a[0]", "a[*]", "a[*].b", "[0]", "@", "`1`", "`null`", "'s'", "a[?b]", "*", "a.*"}
	for _, x := range operands {
		add("!"+x, "! "+x)
		add("!("+x+")", "!( "+x+" )")
		for _, y := range operands {
			for _, op := range []string{"||", "&&", "==", "!=", "<", "<=", ">", ">="} {
				add(x+" "+op+" "+y, "binop "+op)
			}
			add("let $v = "+x+" in "+y, "let-unused")
			add("let $v = "+x+" in [$v, "+y+"]", "let-list")
		}
		add("let $v = "+x+" in $v", "let-id")
		for _, y := range operands {
			add("let $v = "+x+" in let $v = "+y+" in $v", "let-shadow")
			add("let $v = "+x+" in [let $v = "+y+" in $v, $v]", "let-shadow-ends")
		}
		add("let $v = "+x+" in a[*].[$v]", "let-in-projection")
		add("let $v = "+x+" in a[?@ == $v]", "let-in-filter")
		add("a[*].["+x+"]", "ms-in-projection")
		add("[?"+x+"]", "filter-on")
		add("a[?"+x+"].b", "filter-on-b")
		add("*.["+x+"]", "ms-in-object-projection")
		add("["+x+", "+x+"]", "ms-dup")
		add("{k: "+x+", k: `1`}", "mh-dup-key")
	}
	// comparisons of values that are close together, spelled differently or of different types: fields of the
	// comparison documents against each other and against literals
	for _, op := range []string{"==", "!=", "<", "<=", ">", ">="} {
		for _, x := range c01CompareFields {
			for _, y := range c01CompareFields {
				add(x+" "+op+" "+y, "compare "+op)
			}
			for _, lit := range c01CompareLiterals {
				add(x+" "+op+" `"+lit+"`", "compare-literal "+op)
				add("`"+lit+"` "+op+" "+x, "compare-literal "+op)
			}
			add("all[?@ "+op+" $."+x+"]", "compare-filter "+op)
		}
		for _, l1 := range c01CompareLiterals {
			for _, l2 := range c01CompareLiterals {
				add("`"+l1+"` "+op+" `"+l2+"`", "compare-literals "+op)
			}
		}
	}
	return out
}

// the comparison family: numbers one unit apart beyond 2^53 and 2^60, the same value in several spellings, a fraction that
// differs from its neighbour in the 20th digit, and one value of every other type
var c01CompareFields = []string{"p", "q", "r", "s", "t", "u", "v", "w", "str", "nul", "arr", "obj"}
var c01CompareLiterals = []string{"9007199254740992", "9007199254740993", "1152921504606846976", "1152921504606846977", "1", "1.0", "0.1", "0.10000000000000000001", "\"1\"", "null", "[1]", "[1.0]", "{\"a\":1152921504606846977}"}

const c01CompareDoc = `{"p":9007199254740992,"q":9007199254740993,"r":1152921504606846976,"s":1152921504606846977,"t":1,"u":1.0,"v":0.1,"w":0.10000000000000000001,"str":"1","nul":null,"arr":[1152921504606846977],"obj":{"a":1152921504606846976},` +
	`"all":[9007199254740992,9007199254740993,1152921504606846976,1152921504606846977,1,1.0,1e0,0.1,0.10000000000000000001,"1",null,[1152921504606846977],{"a":1152921504606846976}]}`

func c01Docs(thorough bool) []doc {
	atoms := []string{"null", "1", `"s"`}
	texts := jsonDocs(atoms, []string{"a", "b"}, 2, 3)
	if thorough {
		texts = append(texts, jsonDocs([]string{"null", "1", `"s"`, "true", "[]", "{}"}, []string{"a", "k"}, 2, 2)...)
		texts = append(texts, `{"a":[{"a":[1,null],"b":{"a":1}},{"a":[[1],[null,2]],"b":null},null,[{"a":1}]],"b":{"a":{"a":null,"b":[1,2]},"k":[null]}}`,
			`[[[1,null],[2]],[[null]],null,[[3,[4]]]]`, `{"a":{"a":{"a":{"a":1}}},"b":[[[["s"]]]]}`)
	}
	seen := map[string]bool{}
	var out []doc
	for _, t := range texts {
		if !seen[t] {
			seen[t] = true
			out = append(out, mkDoc(t))
		}
	}
	return out
}

func init() {
	core.Register(&core.Check{
		ID:    "C01",
		Title: "core queries return the specified value",
		Rule: "every derivation of the core sub-grammar (start symbol x chain of selector/projection steps, parenthesised prefixes, boolean/comparison operators, let) up to the stated depth is evaluated on every JSON document of " +
			"the stated alphabet through the compiled Expression (and through one-shot Search on the first documents) and compared with the reference interpreter; expressions and documents are enumerated without repetition; " +
			"non-trivial = a non-null, non-empty value; distinct_nontrivial counts distinct such outcomes",
		Phases: []core.Phase{{Name: "diff", Build: "instr", Fn: c01Run}, {Name: "compose", Build: "instr", Fn: composeRun("C01", 0)}},
		Judge:  c01Judge,
		Assumptions: []string{
			"the oracle is the reference interpreter mc/ref (bound to the compliance corpus by ref-conformance: every case reproduced or explicitly undetermined)",
			"object members are enumerated in sorted key order on both sides (map-order seam of the instrumented build)",
			"where the specification's prose rule and the reference implementations parse a projection right-hand side differently and the two readings give different values, the oracle abstains",
		},
	})
}

func c01Run(r *core.Run) {
	if bad := refSelfCheck(); bad != "" {
		r.InternalError(bad)
		return
	}
	exprs := c01Expressions(r.Thorough())
	docs := c01Docs(r.Thorough())
	r.Bound("expressions", len(exprs))
	r.Bound("documents", len(docs))
	r.Bound("starts", len(c01Starts))
	r.Bound("steps", len(c01Steps))
	// the deep chains need documents nested four to six levels: every third document plus a few deep ones
	var deepDocs []doc
	for i := 0; i < len(docs); i += 3 {
		deepDocs = append(deepDocs, docs[i])
	}
	for _, t := range []string{`{"a":[[{"x":{"a":{"a":1}},"a":{"a":[1]}}],[{"a":{"a":{"a":[{"a":2}]}}}]]}`, `[[{"p":{"a":{"a":1}},"q":{"a":{"a":2}}}],[{"a":{"a":{"a":[3]}}}]]`,
		`{"a":{"a":{"a":{"a":{"a":{"a":1}}}}}}`, `[[[[[[1,null]]]]]]`, `{"a":[{"a":[{"a":[{"a":[{"a":1}]}]}]}]}`, `{"x":{"y":{"a":{"a":1}}},"a":[[{"u":{"a":{"a":7}}}]]}`} {
		deepDocs = append(deepDocs, mkDoc(t))
	}
	seq := func(n int) string {
		parts := make([]string, n)
		for i := range parts {
			parts[i] = fmt.Sprint(i)
		}
		return "[" + strings.Join(parts, ",") + "]"
	}
	bigDocs := []doc{mkDoc(`{"big":` + seq(300) + `,"wide":[` + seq(300) + `,` + seq(130) + `]}`), mkDoc(seq(300)), mkDoc(`{"big":` + seq(256) + `,"wide":[` + seq(129) + `]}`), mkDoc(seq(128)), mkDoc(`{"big":[1],"wide":[[1]]}`)}
	compareDocs := []doc{mkDoc(c01CompareDoc)}
	before := make([]string, len(docs))
	for i, d := range docs {
		before[i] = core.Canon(core.Norm(d.Raw))
	}
	for i, e := range exprs {
		if !r.Mine(i) {
			continue
		}
		if r.Expired() {
			break
		}
		ds := docs
		if strings.HasPrefix(e.Shape, "deep ") {
			ds = deepDocs
		}
		if strings.HasPrefix(e.Shape, "index-boundary ") {
			ds = bigDocs
		}
		if strings.HasPrefix(e.Shape, "compare") {
			ds = compareDocs
		}
		c01One(r, e.Text, e.Shape, ds)
	}
	for i, d := range docs {
		if core.Canon(core.Norm(d.Raw)) != before[i] {
			r.InternalError("a shared input document was modified during the run (see C06): " + d.Text)
			break
		}
	}
}

func c01One(r *core.Run, text, shape string, docs []doc) {
	c := prepare(text)
	r.Add("states", 1)
	for di, d := range docs {
		r.Begin(map[string]any{"expr": text, "doc": d.Text})
		want := c.refEval(d.Norm)
		o := c.run(d.Raw)
		r.Eval(o)
		if want.U != "" {
			r.AbstainOn(want.U)
			r.Add("oracle_abstained", 1)
			continue
		}
		r.Add("oracle_determinate", 1)
		k := ref.Diff(o, want)
		if k == "" && di < 2 {
			// cross-route: one-shot Search must agree with the compiled expression
			o2 := core.Search(text, d.Raw)
			r.Add("evaluations", 1)
			if o2.Key() != o.Key() {
				k = "search-vs-compiled"
				o = o2
			}
		}
		if di%97 == 0 {
			r.Sample(func() any { return map[string]any{"expr": text, "doc": d.Text, "outcome": o.Short()} })
		}
		if k != "" {
			r.Violate(&core.Violation{
				Sig:      "C01/" + k + "/" + shape,
				Desc:     fmt.Sprintf("Search(%q, %s)", text, d.Text),
				Point:    map[string]any{"expr": text, "doc": d.Text, "shape": shape},
				Expected: want.String(),
				Actual:   o.Short(),
			})
		}
	}
}

func c01Judge(r *core.Run, phase string, p map[string]any) *core.Violation {
	if phase == "compose" {
		return composeJudge(r, "C01", p)
	}
	text, dt := pstr(p, "expr"), pstr(p, "doc")
	d := mkDoc(dt)
	c := prepare(text)
	want := c.refEval(d.Norm)
	if want.U != "" {
		return nil
	}
	o := c.run(d.Raw)
	k := ref.Diff(o, want)
	if k == "" {
		o2 := core.Search(text, d.Raw)
		if o2.Key() != o.Key() {
			k, o = "search-vs-compiled", o2
		}
	}
	if k == "" {
		return nil
	}
	return &core.Violation{Sig: "C01/" + k + "/" + pstr(p, "shape"), Desc: fmt.Sprintf("Search(%q, %s)", text, dt), Point: p, Expected: want.String(), Actual: o.Short()}
}

var refSelfChecked = ""
var refSelfDone = false

// refSelfCheck binds the reference model to the corpus before it is used as an oracle.
func refSelfCheck() string {
	if refSelfDone {
		return refSelfChecked
	}
	refSelfDone = true
	total, _, abstain, bad := refConformance(false)
	if total == 0 {
		refSelfChecked = "compliance corpus not found under " + repoDir()
	} else if len(bad) > 0 {
		refSelfChecked = "reference model disagrees with the compliance corpus: " + strings.Join(bad[:1], "; ")
	} else if abstain*100 > total*3 {
		refSelfChecked = fmt.Sprintf("reference model abstains on %d of %d corpus cases", abstain, total)
	}
	return refSelfChecked
}
