package props

import (
	"fmt"
	"strings"

	"github.com/woodsbury/jmespath/internal/verifmc/core"
	"github.com/woodsbury/jmespath/internal/verifmc/ref"
)

// C02 — every built-in returns the specified result for every argument
// (form G, differential): every function x every argument count x every
// argument position filled from a typed alphabet, delivered as literals and
// through document fields.

var c02Quick = []string{"null", "true", `""`, `"a"`, `"aba"`, `"aé€"`, "-1", "0", "2", "2.0", "4", "1.5", "3.00000000000000000001", "9223372036854775807", "[]", "[2,1]", `["b","a"]`, `[["k",1]]`, `[[null,1]]`, `{"a":1}`}

var c02Full = []string{
	"null", "true", `""`, `"a"`, `"ab"`, `"aba"`, `"a,b"`, `" a "`, `"é"`, `"aé€"`,
	"-1", "0", "1", "2", "3", "1.5", "2.0", "1e2", "3.00000000000000000001", "1.99999999999999999999", "1e-400", "2147483648", "9007199254740993", "9223372036854775807", "9223372036854775808", "-9223372036854775808",
	"[]", "[1]", "[2,1]", `[1,"a"]`, `["b","a"]`, "[[1,2]]", `[["k",1]]`, `[["k",1,2]]`, "[[1,1]]", "[[null,1]]", `[["k"]]`, "[null]",
	"{}", `{"a":1}`, `{"a":1,"b":2}`,
}

// arrays used with expression-reference functions
var c02ExpArrays = []string{c02Long(14, 3), c02Long(13, 2), "[]", `[{"a":2},{"a":1},{"a":2}]`, `[{"a":"y"},{"a":"x"}]`, `[{"a":1},{"a":"x"}]`, `[{"a":null},{"a":1}]`, "[3,1,2]", `["b","a","b"]`,
	`[[2,"p"],[1,"q"],[2,"r"]]`, `{"a":1}`, `"a"`, "null", `[{"a":true}]`, `[{"a":[1]},{"a":[1,2]}]`}
var c02ExpRefs = []string{"&a", "&@", "&length(@)", "&$v", "&missing", "&[a][0]", "&a.b", "a", "@", "`1`", "&`1`", "&'k'", "&to_string(a)", "&[0]", "&@[0]", "&$s", "&(a || $s)", "&[$s, a][1]",
	// the key computed by another expression-reference function over the same array (re-entrancy)
	"&sort_by($all, &a)[0].a", "&max_by($all, &a).a", "&length(map(&a, $all))", "&sort_by([@, @], &a)[0].a", "&min_by([@], &a).a"}

type c02Call struct {
	Expr  string
	Doc   string
	Shape string
}

func c02TypeClass(v string) string {
	switch {
	case v == "null":
		return "null"
	case v == "true":
		return "bool"
	case strings.HasPrefix(v, `"`):
		return "string"
	case strings.HasPrefix(v, "["):
		return "array"
	case strings.HasPrefix(v, "{"):
		return "object"
	case strings.ContainsAny(v, ".") && !strings.HasSuffix(v, ".0"):
		return "frac"
	case strings.HasPrefix(v, "-"):
		return "negint"
	case len(v) > 9:
		return "bigint"
	case strings.ContainsAny(v, ".e"):
		return "intspelled"
	}
	return "int"
}

// c02Calls enumerates the calls of one function.
func c02Calls(name string, thorough bool, emit func(c02Call)) {
	sig := ref.Signatures[name]
	alpha := c02Quick
	if thorough {
		alpha = c02Full
	}
	hasExp := len(sig.Expr) > 0
	maxN := sig.Max + 1
	if sig.Max < 0 {
		maxN = 3
		if thorough {
			maxN = 4
		}
	}
	if hasExp {
		// expression-reference functions: dedicated argument menus, plus wrong counts
		for _, arr := range c02ExpArrays {
			for _, e := range c02ExpRefs {
				var args []string
				if sig.ExprAt(0) {
					args = []string{e, "`" + arr + "`"}
				} else {
					args = []string{"`" + arr + "`", e}
				}
				call := name + "(" + strings.Join(args, ", ") + ")"
				emit(c02Call{Expr: "let $v = `1`, $s = 'k', $all = `" + arr + "` in " + call, Doc: "null", Shape: name + "/expref/" + c02TypeClass(arr) + "," + strings.TrimLeft(e, "&")})
				// through the document
				dargs := append([]string{}, args...)
				if sig.ExprAt(0) {
					dargs[1] = "x"
				} else {
					dargs[0] = "x"
				}
				emit(c02Call{Expr: "let $v = `1`, $s = 'k', $all = x in " + name + "(" + strings.Join(dargs, ", ") + ")", Doc: `{"x":` + arr + `}`, Shape: name + "/expref-doc/" + c02TypeClass(arr) + "," + strings.TrimLeft(e, "&")})
			}
		}
		for n := 0; n <= 3; n++ {
			if n == 2 {
				continue
			}
			args := []string{"`[1]`", "&@", "&@"}[:n]
			if sig.ExprAt(0) && n >= 1 {
				args = []string{"&@", "`[1]`", "`[1]`"}[:n]
			}
			emit(c02Call{Expr: name + "(" + strings.Join(args, ", ") + ")", Doc: "null", Shape: fmt.Sprintf("%s/arity/%d", name, n)})
			emit(c02Call{Expr: "let $q = " + name + "(" + strings.Join(args, ", ") + ") in $q", Doc: "null", Shape: fmt.Sprintf("%s/arity-in-binding/%d", name, n)})
		}
		return
	}
	var rec func(n int, vals []string)
	rec = func(n int, vals []string) {
		if len(vals) == n {
			lits := make([]string, n)
			fields := make([]string, n)
			docParts := make([]string, n)
			classes := make([]string, n)
			for i, v := range vals {
				lits[i] = "`" + v + "`"
				fields[i] = fmt.Sprintf("x%d", i)
				docParts[i] = fmt.Sprintf(`"x%d":%s`, i, v)
				classes[i] = c02TypeClass(v)
			}
			shape := name + "/" + strings.Join(classes, ",")
			emit(c02Call{Expr: name + "(" + strings.Join(lits, ", ") + ")", Doc: "null", Shape: shape})
			if n > 0 {
				emit(c02Call{Expr: name + "(" + strings.Join(fields, ", ") + ")", Doc: "{" + strings.Join(docParts, ",") + "}", Shape: shape})
			}
			if n == 1 || n == 2 {
				// the same call node evaluated three times in one search, its last argument varying (literal arguments are
				// shared by the evaluations)
				last := vals[n-1]
				other := alpha[(len(last)+len(name)+n)%len(alpha)]
				args := append(append([]string{}, lits[:n-1]...), "@")
				emit(c02Call{Expr: "map(&" + name + "(" + strings.Join(args, ", ") + "), `[" + last + "," + other + "," + last + "]`)", Doc: "null", Shape: shape + "/via-map"})
			}
			return
		}
		for _, v := range alpha {
			rec(n, append(vals[:len(vals):len(vals)], v))
		}
	}
	for n := 0; n <= maxN; n++ {
		if n > sig.Max+1 && sig.Max >= 0 {
			break
		}
		if sig.Max >= 0 && n == sig.Max+1 {
			// one argument too many: a single representative vector per first-argument value
			for _, v := range alpha {
				vals := make([]string, n)
				for i := range vals {
					vals[i] = v
				}
				lits := make([]string, n)
				for i, x := range vals {
					lits[i] = "`" + x + "`"
				}
				emit(c02Call{Expr: name + "(" + strings.Join(lits, ", ") + ")", Doc: "null", Shape: fmt.Sprintf("%s/arity/%d", name, n)})
				emit(c02Call{Expr: "[let $q = " + name + "(" + strings.Join(lits, ", ") + ") in $q, {k: " + name + "(" + strings.Join(lits, ", ") + ")}]", Doc: "null", Shape: fmt.Sprintf("%s/arity-in-binding/%d", name, n)})
			}
			continue
		}
		rec(n, nil)
	}
	// an expression reference where a value is wanted
	emit(c02Call{Expr: name + "(&@)", Doc: "null", Shape: name + "/expref-in-value-position"})
	if strings.HasPrefix(name, "trim") {
		for _, c := range []string{"\ufeff", "\u200b", "\u00a0", "\u0085", "\u1680", "\u2028", "\u3000", "\u001f", "\u00e0", "\u0105", "\U0001f605", "\u180e", "\u2060"} {
			emit(c02Call{Expr: name + "(x)", Doc: "{\"x\":" + jsonText(c+" a "+c) + "}", Shape: name + "/edge-code-point"})
			emit(c02Call{Expr: name + "(x, '')", Doc: "{\"x\":" + jsonText(c+"a"+c) + "}", Shape: name + "/edge-code-point"})
			emit(c02Call{Expr: name + "(x, y)", Doc: "{\"x\":" + jsonText(c+"a"+c) + ",\"y\":" + jsonText(c) + "}", Shape: name + "/edge-code-point"})
		}
	}
	if name == "merge" {
		// a literal object shared by several evaluations of one call
		for _, e := range []string{"map(&merge(`{}`, @), `[{\"a\":1},{\"b\":2},{\"c\":3}]`)", "map(&merge(`{\"z\":0}`, @, `{\"y\":1}`), `[{\"a\":1},{\"z\":2},{}]`)", "[{\"a\":1},{\"b\":2}][*].merge(`{\"k\":0}`, @)",
			"map(&merge(@, `{\"z\":0}`), `[{\"a\":1},{\"z\":2}]`)", "[merge(`{}`, {a: `1`}), merge(`{}`, {b: `2`})]"} {
			emit(c02Call{Expr: e, Doc: "null", Shape: "merge/literal-shared"})
		}
	}
	if name == "sort" || name == "reverse" || name == "sort_by" {
		for _, e := range []string{"map(&" + name + "(`[3,1,2]`, &@)[@], `[0,1,2]`)", "map(&" + name + "(`[3,1,2]`)[@], `[0,1,2]`)", "map(&" + name + "(`[\"b\",\"a\"]`)[0], `[0,1]`)"} {
			emit(c02Call{Expr: e, Doc: "null", Shape: name + "/literal-shared"})
		}
	}
}

func init() {
	core.Register(&core.Check{
		ID:    "C02",
		Title: "every built-in returns the specified result for every argument",
		Rule: "for each of the 41 built-in functions every argument count from 0 to max+1 and the full Cartesian product of the typed value alphabet over the argument positions is called once with literal arguments and once through document fields " +
			"(expression-reference functions: every array of their menu x every expression-reference form, incl. a let-bound variable and non-& arguments) and compared with the reference model's value / error category; " +
			"non-trivial = a non-null, non-empty, non-error value; distinct_nontrivial counts distinct such outcomes",
		Phases: []core.Phase{{Name: "calls", Build: "instr", Fn: c02Run}, {Name: "compose", Build: "instr", Fn: composeRun("C02", 2)}},
		Judge:  c02Judge,
		Assumptions: []string{
			"the oracle is the per-function table of DESIGN.md appendix A as implemented in mc/ref/funcs.go; it abstains where the specification is silent (listed in abstentions_by_reason)",
			"tick budget per call: 200000 loop iterations inside the library",
		},
	})
}

const c02TickBudget = 200000

func c02Run(r *core.Run) {
	if bad := refSelfCheck(); bad != "" {
		r.InternalError(bad)
		return
	}
	core.EnableTicks(c02TickBudget)
	names := ref.FunctionNames()
	r.Bound("functions", len(names))
	r.Bound("alphabet", map[bool][]string{false: c02Quick, true: c02Full}[r.Thorough()])
	r.Bound("expref_arrays", len(c02ExpArrays))
	r.Bound("expref_forms", c02ExpRefs)
	n := 0
	docCache := map[string]doc{}
	for _, name := range names {
		c02Calls(name, r.Thorough(), func(c c02Call) {
			n++
			if !r.Mine(n) || r.Expired() {
				return
			}
			d, ok := docCache[c.Doc]
			if !ok {
				d = mkDoc(c.Doc)
				if len(docCache) < 50000 {
					docCache[c.Doc] = d
				}
			}
			r.Add("states", 1)
			r.Begin(map[string]any{"expr": c.Expr, "doc": c.Doc})
			if v := diffPoint("C02", r, prepare(c.Expr), c.Shape, d); v != nil {
				r.Violate(v)
			}
			if n%4099 == 0 {
				r.Sample(func() any { return map[string]any{"expr": c.Expr, "doc": c.Doc} })
			}
		})
	}
}

// diffPoint is the generic differential judgement of one (expression, document) point.
func diffPoint(prop string, r *core.Run, c *compiled, shape string, d doc) *core.Violation {
	want := c.refEval(d.Norm)
	o := c.run(d.Raw)
	r.Eval(o)
	r.Add("transitions", 1)
	if want.U != "" {
		r.AbstainOn(want.U)
		r.Add("oracle_abstained", 1)
		if o.Kind == "panic" {
			// a panic is never an acceptable outcome, whatever the specification leaves open
			return &core.Violation{Sig: prop + "/" + o.Kind + "/" + shape, Desc: fmt.Sprintf("Search(%q, %s)", c.Text, d.Text),
				Point: map[string]any{"expr": c.Text, "doc": d.Text, "shape": shape}, Expected: "a value or an error (" + want.String() + ")", Actual: o.Short()}
		}
		return nil
	}
	r.Add("oracle_determinate", 1)
	k := ref.Diff(o, want)
	if k == "" {
		return nil
	}
	return &core.Violation{Sig: prop + "/" + k + "/" + shape, Desc: fmt.Sprintf("Search(%q, %s)", c.Text, d.Text),
		Point: map[string]any{"expr": c.Text, "doc": d.Text, "shape": shape}, Expected: want.String(), Actual: o.Short()}
}

func c02Judge(r *core.Run, phase string, pt map[string]any) *core.Violation {
	if phase == "compose" {
		return composeJudge(r, "C02", pt)
	}
	core.EnableTicks(c02TickBudget)
	return diffPoint("C02", r, prepare(pstr(pt, "expr")), pstr(pt, "shape"), mkDoc(pstr(pt, "doc")))
}

// c02Long is an array of n objects whose key a cycles through m values (ties in arrays longer than the sort routine's
// small-array threshold); i is the original position.
func c02Long(n, m int) string {
	parts := make([]string, n)
	for i := range parts {
		parts[i] = fmt.Sprintf(`{"a":%d,"i":%d}`, i%m, i)
	}
	return "[" + strings.Join(parts, ",") + "]"
}
