package props

import (
	"encoding/json"
	"fmt"
	"strings"

	"github.com/woodsbury/jmespath/internal/verifmc/core"
	"github.com/woodsbury/jmespath/internal/verifmc/ref"
	"github.com/woodsbury/jmespath/internal/verifrt"
)

// C06 — a compiled expression is a pure, reusable function of the data
// (form H: search over call histories on one compiled Expression).

// c06Docs builds a fresh set of documents. Arrays carry spare capacity with
// sentinels in the hidden tail; some sub-values are shared between places.
func c06Docs() []any {
	num := func(s string) any { return json.Number(s) }
	withTail := func(elems ...any) []any {
		a := make([]any, len(elems), len(elems)+3)
		copy(a, elems)
		full := a[:cap(a)]
		for i := len(elems); i < cap(a); i++ {
			full[i] = fmt.Sprintf("sentinel-%d", i)
		}
		return a
	}
	shared := withTail(num("3"), num("1"), num("2"))
	sharedObj := map[string]any{"b": num("2"), "a": num("1")}
	objs := withTail(map[string]any{"a": num("2"), "k": "y", "b": withTail(num("1"))}, map[string]any{"a": num("1"), "k": "x", "b": withTail()}, map[string]any{"a": num("2"), "k": "x", "b": nil})
	big := withTail()
	for i := 0; i < 14; i++ {
		big = append(big, map[string]any{"a": num(fmt.Sprint((i * 5) % 3)), "k": string(rune('a' + i%2)), "i": num(fmt.Sprint(i))})
	}
	return []any{
		map[string]any{"a": shared, "b": shared[1:2], "c": sharedObj, "d": sharedObj},
		map[string]any{"a": objs, "b": "ba", "c": map[string]any{"z": withTail("q", "p"), "y": nil}},
		withTail(num("2"), nil, withTail(num("1"), nil), "s"),
		map[string]any{"a": withTail("b", "a", "c"), "b": withTail(withTail("k", num("1")), withTail("j", num("2"))), "c": sharedObj},
		map[string]any{"a": big, "b": withTail(withTail(num("1"), num("2")), withTail(num("3"))), "c": map[string]any{}},
		objs,
		shared,
		map[string]any{"a": nil, "b": withTail(), "c": map[string]any{"a": map[string]any{"a": num("1")}}},
		"string",
		nil,
		num("1.50"),
		map[string]any{"a": withTail(num("1.0"), num("1"), num("1e0")), "b": "x", "c": sharedObj},
		map[string]any{"a": withTail(nil, num("1"), num("2"), nil, num("3")), "b": withTail(nil, "x", nil), "c": map[string]any{"z": nil, "y": withTail(nil, num("1"))}},
		map[string]any{"a": withTail(map[string]any{"a": num("1"), "k": "x"}, map[string]any{"a": num("2"), "k": "y"}, map[string]any{"a": num("3"), "k": "z"}), "b": withTail("p", "q"), "c": sharedObj},
	}
}

var c06Exprs = []string{
	"sort(a)", "sort_by(a, &a)", "sort_by(a, &k)", "sort_by(a, &a)[0]", "reverse(a)", "reverse(@)", "merge(c, d)", "merge(c, {z: a})", "merge(@, @)", "group_by(a, &k)", "from_items(b)", "zip(a, a)", "zip(b, a)",
	"[a, b]", "{x: a, y: b}", "a[1:]", "a[::-1]", "a[0:2]", "a[1:][0]", "@[1:]", "a[]", "b[]", "[]", "a[*]", "[*]", "a[*].a", "a[?a == `2`]", "a[?a == `2`].k", "*", "c.*", "a[*].*",
	"`[3,1,2]`", "sort(`[3,1,2]`)", "reverse(`[3,1,2]`)", "`[3,1,2]`[1:]", "`[[3,1],[2]]`[]", "`{\"b\":1,\"a\":[2,1]}`", "`{\"b\":1,\"a\":[2,1]}`.a", "sort(`{\"b\":1,\"a\":[2,1]}`.a)", "merge(`{\"a\":1}`, c)", "keys(`{\"b\":1,\"a\":2}`)",
	"values(`{\"b\":[1],\"a\":[2]}`)[]", "let $v = a in [$v, sort($v)]", "let $v = `[2,1]` in [sort($v), $v]", "map(&@, a)", "map(&[@], a)", "map(&sort(b), a)", "to_array(a)", "to_array(@)", "to_array(b)", "$", "$.a", "a | $", "[$, @]",
	"max_by(a, &a)", "min_by(a, &a)", "max(a)", "min(a)", "not_null(a, b)", "a || b", "a && b", "a", "c", "items(c)", "keys(c)", "values(c)", "join(',', a)", "split(b, 'a')", "length(a)", "a[*].b[]", "a[].b[]", "a[*].b[0]",
	"sort_by(a, &i)[*].i", "sort_by(a, &a)[*].i", "a[?k == 'a'][*].i", "group_by(a, &k).a[*].i", "a[::2]", "a[1::2][*].i", "to_string(a)", "to_string(@)", "a == a", "[a] == [a]", "contains(a, `1`)", "sum(a[?@ != null])", "avg(a)",
	"[0]", "[1]", "[-1]", "[255]", "[0] || 'none'", "length([1])", "[0][0]", "[1][0]", "[0].a", "[2]", "[0] == [1]", "`1`", "'const'", "`[1,2]`[0]", "abs(`-1`)", "[0:1]", "@", "type(@)", "length(@)",
	"sort_by(a, b)", "map(a, @)", "a[::0]", "abs()", "nosuch(a)", "a[", "max_by(a, a)",
	"a[*].a | @", "a[*].k | {n: @}", "a[*].a | [@, @]", "a[*] | to_array(@)", "a[*].i | [@][0]", "b[*] | @", "a[?a].k | {n: @, c: length(@)}", "a[].k | @", "a[*].[k] | @", "map(&k, a) | [@]",
	"let $l = b in a[?let $s = `10` in a * $s > `5`].k", "let $l = c in a[*].[let $s = `1` in [$s, $l]]", "let $x = a in let $y = `1`, $z = 'k' in [$x, $y, $z]",
	"reverse(sort_by(a, &a))", "reverse(sort_by(a, &k))", "reverse(sort(a))", "reverse(map(&@, a))", "[reverse(sort_by(a, &a))[*].k, a[*].k]", "[a[:3], a[1:]]", "[a[1:], a]", "[b[:1], b]",
	"b[*][0]", "b[*][1:]", "from_items(b).k", "flatten", "a[*][]", "[a, a][]", "[a, a][*][1:]", "{x: a}.x[1:]", "merge(c).a", "[c, d][*].a", "sort(a)[1:]", "reverse(a)[1:]", "reverse(sort(a))", "sort(reverse(a))",
}

func init() {
	core.Register(&core.Check{
		ID:    "C06",
		Title: "a compiled expression is a pure, reusable function of the data",
		Rule: "states are (compiled Expression, history of documents already searched); a transition is one more Expression.Search on a document of the menu (arrays with spare capacity and sentinels in the hidden tail, shared sub-values, the same document repeated); " +
			"every history up to the stated length is executed on a fresh compilation, also starting from warmed-up states; at every transition the outcome must equal a fresh one-shot Search on a fresh copy, the deep snapshot of every document (including hidden capacity) and the " +
			"structural hash of the AST behind the Expression must be unchanged, and every earlier result must still have its original deep value; non-trivial = a transition whose result is a non-null, non-empty value; distinct_nontrivial counts distinct such results",
		// the histories run twice: on the instrumented build (map ranges in sorted order: every expression), and on the pristine one, where
		// Go's own randomised map iteration stays in play, for the expressions that do not enumerate object members (a result that
		// follows the iteration order, like a home-made to_string, differs from the fresh search there)
		Phases:      []core.Phase{{Name: "histories", Build: "instr", Fn: c06Run}, {Name: "histories-runtime-order", Build: "pristine", Fn: c06Run}, {Name: "other-expressions-first", Build: "pristine", Fn: c06RunPairs}, {Name: "routes", Build: "instr", Fn: c06RunRoutes}},
		Judge:       c06Judge,
		Assumptions: []string{"a result may alias the caller's data (a[1:] is a sub-slice of the input); the property forbids writes, not aliasing", "MustCompile <=> Compile is checked by C03 over its whole string space"},
	})
}

// c06History executes one history on a fresh compilation; idx are document indices.
func c06History(r *core.Run, expr string, idx []int, warm bool, fresh map[int]core.Obs) *core.Violation {
	e, co := core.Compile(expr)
	if e == nil {
		// a text that does not compile must fail the one-shot Search in the same way, on every document of the history
		for step, j := range idx {
			one := core.Search(expr, c06Docs()[j])
			r.Add("evaluations", 1)
			if one.Key() != co.Key() {
				hs := make([]string, len(idx))
				for i, j := range idx {
					hs[i] = fmt.Sprint(j)
				}
				return &core.Violation{Sig: "C06/compile-fails-but-search-differs/" + fnOf(expr), Desc: fmt.Sprintf("Compile(%q) fails; Search(%q, document %d)", expr, expr, j),
					Point: map[string]any{"expr": expr, "history": strings.Join(hs, ","), "warm": warm, "doc": "history " + strings.Join(hs, ",")}, Expected: "the Compile failure: " + co.Short(), Actual: one.Short() + fmt.Sprintf(" (step %d)", step)}
			}
		}
		return nil
	}
	docs := c06Docs()
	snaps := make([]string, len(docs))
	for i, d := range docs {
		snaps[i] = core.Snapshot(d)
	}
	ast := core.DeepHash(e)
	mk := func(kind string, step int, exp, act string) *core.Violation {
		hs := make([]string, len(idx))
		for i, j := range idx {
			hs[i] = fmt.Sprint(j)
		}
		return &core.Violation{Sig: "C06/" + kind + "/" + fnOf(expr), Desc: fmt.Sprintf("Compile(%q), then Search on documents %v (warm=%v), step %d", expr, idx, warm, step),
			Point: map[string]any{"expr": expr, "history": strings.Join(hs, ","), "warm": warm, "doc": "history " + strings.Join(hs, ",")}, Expected: exp, Actual: act}
	}
	if warm {
		for _, d := range docs {
			core.ExprSearch(e, d)
		}
		for i, d := range docs {
			if s := core.Snapshot(d); s != snaps[i] {
				return mk("document-modified", -1, "document "+fmt.Sprint(i)+" unchanged by the warm-up: "+trunc(snaps[i], 200), trunc(s, 200))
			}
		}
	}
	type kept struct {
		raw  any
		snap string
		step int
	}
	var results []kept
	for step, j := range idx {
		o := core.ExprSearch(e, docs[j])
		r.Eval(o)
		r.Add("transitions", 1)
		if o.Kind == "panic" {
			return mk("panic", step, "returns", o.Short())
		}
		want, ok := fresh[j]
		if !ok {
			want = core.Search(expr, c06Docs()[j])
			fresh[j] = want
			r.Add("evaluations", 1)
		}
		if o.Key() != want.Key() {
			return mk("differs-from-fresh-search", step, want.Short(), o.Short())
		}
		if o.Kind == "ok" && core.Skeleton(o.Raw) != core.Skeleton(want.Raw) {
			return mk("differs-from-fresh-search-in-go-types", step, core.Skeleton(want.Raw), core.Skeleton(o.Raw))
		}
		for i, d := range docs {
			if s := core.Snapshot(d); s != snaps[i] {
				return mk("document-modified", step, fmt.Sprintf("document %d unchanged (incl. hidden capacity): %s", i, trunc(snaps[i], 300)), trunc(s, 300))
			}
		}
		if h := core.DeepHash(e); h != ast {
			return mk("expression-modified", step, "the AST behind the Expression unchanged", "AST hash changed")
		}
		for _, k := range results {
			if s := core.Snapshot(k.raw); s != k.snap {
				return mk("earlier-result-changed", step, fmt.Sprintf("the result of step %d still %s", k.step, trunc(k.snap, 200)), trunc(s, 200))
			}
		}
		if o.Kind == "ok" {
			results = append(results, kept{o.Raw, core.Snapshot(o.Raw), step})
		}
	}
	return nil
}

func c06Expressions(thorough bool) []string {
	seen := map[string]bool{}
	var out []string
	add := func(s string) {
		if !seen[s] {
			seen[s] = true
			out = append(out, s)
		}
	}
	for _, e := range c06Exprs {
		add(e)
	}
	// expressions that hand the caller's own array (or object) on unchanged, under every construct that might be tempted to
	// work in place
	aliases := []string{"a", "a[*]", "(a)", "@.a", "$.a", "a || b", "a && a", "not_null(a)", "not_null(`null`, a)", "[a][0]", "{x: a}.x", "a | @", "let $x = a in $x", "to_array(a)", "a[:]", "b", "b[*]", "c", "merge(c)"}
	consumers := []string{"sort(%s)", "reverse(%s)", "sort_by(%s, &@)", "sort_by(%s, &a)", "max_by(%s, &a)", "[%s][]", "%s[]", "%s[*]", "%s[?@]", "merge(%s, %s)", "zip(%s, %s)", "map(&@, %s)", "%s[1:]", "join(',', %s)", "%s | sort([*])",
		"%s | reverse([*])", "%s | [*]", "%s | []", "values(%s)", "items(%s)", "from_items(%s)", "group_by(%s, &k)"}
	for _, al := range aliases {
		for _, c := range consumers {
			add(strings.ReplaceAll(c, "%s", al))
		}
	}
	// keywords and other texts on the border of the grammar: Compile and one-shot Search must agree on them
	for _, e := range []string{"let", "in", "let.a", "a.let", "in.a", "a.in", "let $x", "let $x = a", "let $x = a in", "{let: a}", "{in: a}", "[let]", "[in]", "let(a)", "in(a)", "$let", "$in", "let $let = a in $let", "let $in = a in $in",
		"\"let\"", "\"in\"", "a", " a", "a ", "", " ", "@", "$", "*", "&a", "`1`", "''", "\"\""} {
		add(e)
	}
	// every built-in with document arguments
	for _, name := range ref.FunctionNames() {
		sig := ref.Signatures[name]
		args := []string{"a", "b", "c", "d"}
		n := sig.Min
		if n < 1 {
			n = 1
		}
		as := append([]string{}, args[:n]...)
		for i := range as {
			if sig.ExprAt(i) {
				as[i] = "&a"
			}
		}
		add(name + "(" + strings.Join(as, ", ") + ")")
		add(name + "(@)")
	}
	step := 97
	if thorough {
		step = 11
	}
	for i, e := range c01Expressions(false) {
		if i%step == 0 {
			add(e.Text)
		}
	}
	return out
}

// c06Enumerates: the expression's result may legitimately follow the order in which an object's members are enumerated.
func c06Enumerates(e string) bool {
	for i := 0; i < len(e); i++ {
		if e[i] != '*' {
			continue
		}
		// the array wildcard x[*] does not enumerate an object; ".[*]" is a multi-select holding an object wildcard
		isArrayWildcard := i > 0 && e[i-1] == '[' && i+1 < len(e) && e[i+1] == ']' && !(i > 1 && e[i-2] == '.')
		if !isArrayWildcard {
			return true
		}
	}
	for _, f := range []string{"keys(", "values(", "items(", "group_by(", "from_items(", "merge(", "{", ", $"} {
		if strings.Contains(e, f) {
			return true
		}
	}
	return false
}

func c06Run(r *core.Run) {
	exprs := c06Expressions(r.Thorough())
	nd := len(c06Docs())
	k := 2
	if r.Thorough() {
		k = 3
	}
	if !verifrt.Instrumented {
		var keep []string
		for _, e := range exprs {
			if !c06Enumerates(e) {
				keep = append(keep, e)
			}
		}
		exprs = keep
		k = 1
		if r.Thorough() {
			k = 2
		}
	}
	r.Bound("expressions", len(exprs))
	r.Bound("documents", nd)
	r.Bound("history_length", k)
	for i, e := range exprs {
		if !r.Mine(i) {
			continue
		}
		if r.Expired() {
			return
		}
		// MustCompile panics exactly when Compile fails
		ce, _ := core.Compile(e)
		_, panicked, _ := core.MustCompile(e)
		r.Add("evaluations", 2)
		if panicked != (ce == nil) {
			r.Violate(&core.Violation{Sig: "C06/mustcompile-disagrees-with-compile/" + fnOf(e), Desc: fmt.Sprintf("MustCompile(%q) vs Compile(%q)", e, e),
				Point: map[string]any{"expr": e, "history": "", "warm": false, "doc": "-", "must": true}, Expected: fmt.Sprintf("MustCompile panics = %v (Compile failed = %v)", ce == nil, ce == nil), Actual: fmt.Sprintf("panicked = %v", panicked)})
		}
		fresh := map[int]core.Obs{}
		var rec func(idx []int)
		rec = func(idx []int) {
			if len(idx) > 0 {
				r.Add("states", 1)
				for _, warm := range []bool{false, true} {
					if warm && len(idx) > 1 {
						continue // warmed-up states are explored with one further transition
					}
					r.Begin(map[string]any{"expr": e, "doc": fmt.Sprint(idx)})
					if v := c06History(r, e, idx, warm, fresh); v != nil {
						r.Violate(v)
					}
				}
			}
			if len(idx) == k {
				return
			}
			for j := 0; j < nd; j++ {
				rec(append(idx[:len(idx):len(idx)], j))
			}
		}
		rec(nil)
		r.Sample(func() any {
			return map[string]any{"expr": e, "histories": "all sequences of up to " + fmt.Sprint(k) + " of " + fmt.Sprint(nd) + " documents"}
		})
	}
}

// texts that differ only in the white space inside a quoted token, or only in case, or only in layout between tokens: a
// compiled expression must answer for its own text whatever was compiled before it in the same process
var c06Families = [][]string{
	{"split(@, ' ')", "split(@, '  ')", "split(@, '\t')", "split(@,  ' ')"},
	{"'a b'", "'a  b'", "'a\tb'", "'a\nb'", " 'a b' "},
	{"\"a b\"", "\"a  b\"", "\"a b\" ", "\"a\\tb\""},
	{"`\"a b\"`", "`\"a  b\"`", "` \"a b\"`", "`\"a b\" `"},
	{"join(' ', a)", "join('  ', a)", "join(', ', a)", "join(',  ', a)"},
	{"a.b", "a .b", "a. b", "A.b", "a.B"},
	{"{\"k 1\": a}", "{\"k  1\": a}", "{ \"k 1\" : a }"},
	{"a[?b == 'x y']", "a[?b == 'x  y']", "a[? b == 'x y' ]"},
	{"length('x y')", "length('x   y')", "length( 'x y' )"},
}

func c06PairDocs() []any {
	return []any{
		"a  b c", map[string]any{"a": []any{"p", "q"}, "a b": json.Number("1"), "a  b": json.Number("2"), "a\tb": json.Number("3"), "k 1": "one", "k  1": "two"},
		map[string]any{"a": map[string]any{"b": json.Number("1"), "B": json.Number("2")}, "A": map[string]any{"b": json.Number("3")}},
		map[string]any{"a": []any{map[string]any{"b": "x y"}, map[string]any{"b": "x  y"}}},
	}
}

// c06PairPoint: compile first, then second; the second one's searches must equal fresh one-shot searches of its text.
func c06PairPoint(r *core.Run, first, second string) *core.Violation {
	core.Compile(first)
	e, co := core.Compile(second)
	_, panicked, _ := core.MustCompile(second)
	r.Add("evaluations", 3)
	mk := func(kind, exp, act string) *core.Violation {
		return &core.Violation{Sig: "C06/" + kind + "/" + fnOf(second), Desc: fmt.Sprintf("Compile(%q), then Compile(%q)", first, second),
			Point: map[string]any{"pair": true, "first": first, "second": second, "expr": second, "doc": "after Compile(" + first + ")"}, Expected: exp, Actual: act}
	}
	if panicked != (e == nil) {
		return mk("mustcompile-disagrees-with-compile", fmt.Sprintf("MustCompile panics = %v", e == nil), fmt.Sprintf("panicked = %v", panicked))
	}
	for i, d := range c06PairDocs() {
		one := core.Search(second, d)
		r.Add("transitions", 1)
		if e == nil {
			if one.Key() != co.Key() {
				return mk("compile-fails-but-search-differs", "the Compile failure: "+co.Short(), one.Short())
			}
			continue
		}
		got := core.ExprSearch(e, d)
		r.Eval(got)
		if got.Key() != one.Key() {
			return mk("differs-from-fresh-search", fmt.Sprintf("document %d: %s", i, one.Short()), got.Short())
		}
	}
	return nil
}

func c06RunPairs(r *core.Run) {
	n := 0
	for _, fam := range c06Families {
		for _, first := range fam {
			for _, second := range fam {
				if first == second {
					continue
				}
				n++
				if !r.Mine(n) {
					continue
				}
				r.Add("states", 1)
				r.Begin(map[string]any{"expr": second, "doc": "after Compile(" + first + ")"})
				if v := c06PairPoint(r, first, second); v != nil {
					r.Violate(v)
				}
			}
		}
	}
}

func c06Judge(r *core.Run, phase string, pt map[string]any) *core.Violation {
	if pbool(pt, "routes") {
		return c06RouteText(r, pstr(pt, "expr"), pstr(pt, "shape"), composeDocs())
	}
	if pbool(pt, "pair") {
		return c06PairPoint(r, pstr(pt, "first"), pstr(pt, "second"))
	}
	if pbool(pt, "must") {
		e := pstr(pt, "expr")
		ce, _ := core.Compile(e)
		_, panicked, _ := core.MustCompile(e)
		if panicked != (ce == nil) {
			return &core.Violation{Sig: "C06/mustcompile-disagrees-with-compile", Desc: "MustCompile vs Compile", Point: pt, Expected: fmt.Sprint(ce == nil), Actual: fmt.Sprint(panicked)}
		}
		return nil
	}
	var idx []int
	for _, s := range strings.Split(pstr(pt, "history"), ",") {
		var j int
		if _, err := fmt.Sscan(s, &j); err == nil {
			idx = append(idx, j)
		}
	}
	return c06History(r, pstr(pt, "expr"), idx, pbool(pt, "warm"), map[int]core.Obs{})
}
