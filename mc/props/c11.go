package props

import (
	"encoding/json"
	"fmt"
	"strings"
	"unicode"

	"github.com/woodsbury/jmespath/internal/verifmc/core"
	"github.com/woodsbury/jmespath/internal/verifmc/ref"
)

// C11 — strings are sequences of code points (form G; metamorphic renaming +
// differential on the ASCII point).

type c11Arg struct {
	Str   *string  // a string argument
	Strs  []string // an array-of-strings argument
	Num   string   // a number argument (text)
	IsNum bool
}

type c11Call struct {
	Fn    string // function name, or "slice" / "eq" / "lt"
	Args  []c11Arg
	Slice string // for Fn == "slice": the bracket text
}

func sArg(s string) c11Arg     { return c11Arg{Str: &s} }
func nArg(n string) c11Arg     { return c11Arg{Num: n, IsNum: true} }
func aArg(ss ...string) c11Arg { return c11Arg{Strs: append([]string{}, ss...)} }
func rawLit(s string) string   { return "'" + strings.NewReplacer(`\`, `\\`, `'`, `\'`).Replace(s) + "'" }
func jsonStr(s string) string  { return jsonText(s) }
func identity(s string) string { return s }

var c11Rename1 = strings.NewReplacer("a", "é", "b", "€", "c", "😀")
var c11Rename2 = strings.NewReplacer("b", "é", "c", "😀")

// every class of UTF-8 lead byte appears in some renaming (E0, ED, F4; C2, DF, F0; the first three-byte code point, U+FFFD)
var c11Renamings = []*strings.Replacer{c11Rename1, c11Rename2,
	strings.NewReplacer("a", "\u0e01", "b", "\ud7ff", "c", "\U0010ffff"),
	strings.NewReplacer("a", "\u0080", "b", "\u07ff", "c", "\U00010000"),
	strings.NewReplacer("a", "\u0800", "b", "\ufffd", "c", "\U0001ffff")}

// render builds the expression and document for one delivery mode under a renaming.
func (c c11Call) render(mode string, ren func(string) string) (expr string, docText string) {
	var parts []string
	var fields []string
	for i, a := range c.Args {
		name := fmt.Sprintf("x%d", i)
		switch {
		case a.IsNum:
			parts = append(parts, "`"+a.Num+"`")
		case a.Str != nil:
			if mode == "literal" {
				parts = append(parts, rawLit(ren(*a.Str)))
			} else {
				parts = append(parts, name)
				fields = append(fields, jsonStr(name)+":"+jsonStr(ren(*a.Str)))
			}
		default:
			if mode == "literal" {
				els := make([]string, len(a.Strs))
				for j, s := range a.Strs {
					els[j] = rawLit(ren(s))
				}
				if len(els) == 0 {
					parts = append(parts, "`[]`")
				} else {
					parts = append(parts, "["+strings.Join(els, ", ")+"]")
				}
			} else {
				els := make([]string, len(a.Strs))
				for j, s := range a.Strs {
					els[j] = jsonStr(ren(s))
				}
				parts = append(parts, name)
				fields = append(fields, jsonStr(name)+":["+strings.Join(els, ",")+"]")
			}
		}
	}
	switch c.Fn {
	case "slice":
		expr = parts[0] + c.Slice
	case "eq":
		expr = parts[0] + " == " + parts[1]
	case "lt":
		expr = parts[0] + " < " + parts[1]
	case "sort_by", "max_by", "min_by":
		expr = c.Fn + "(" + parts[0] + ", &@)"
	case "map-length":
		expr = "map(&length(@), " + parts[0] + ")"
	default:
		expr = c.Fn + "(" + strings.Join(parts, ", ") + ")"
	}
	return expr, "{" + strings.Join(fields, ",") + "}"
}

func (c c11Call) shape() string {
	if c.Fn == "slice" {
		return "slice"
	}
	return fmt.Sprintf("%s/%d", c.Fn, len(c.Args))
}

func c11Strings(alpha string, maxLen int) []string {
	out := []string{""}
	level := []string{""}
	for l := 1; l <= maxLen; l++ {
		var next []string
		for _, p := range level {
			for _, ch := range alpha {
				next = append(next, p+string(ch))
			}
		}
		out = append(out, next...)
		level = next
	}
	return out
}

func c11Enumerate(thorough bool, f func(c11Call)) {
	maxLen := 4
	if thorough {
		maxLen = 6
	}
	subjects := c11Strings("abc", maxLen)
	subs := c11Strings("abc", 2)
	short := c11Strings("ab", 2)
	ints := []string{"-1", "0", "1", "2", "3", "4", "6"}
	parts := []string{"", "-4", "-3", "-2", "-1", "0", "1", "2", "3", "4"}
	steps := []string{"", "-4", "-3", "-2", "-1", "1", "2", "3", "4"}
	for _, s := range subjects {
		for _, a := range parts {
			for _, b := range parts {
				f(c11Call{Fn: "slice", Args: []c11Arg{sArg(s)}, Slice: "[" + a + ":" + b + "]"})
				for _, st := range steps[1:] {
					f(c11Call{Fn: "slice", Args: []c11Arg{sArg(s)}, Slice: "[" + a + ":" + b + ":" + st + "]"})
				}
			}
		}
		f(c11Call{Fn: "length", Args: []c11Arg{sArg(s)}})
		f(c11Call{Fn: "reverse", Args: []c11Arg{sArg(s)}})
		for _, sub := range subs {
			for _, fn := range []string{"find_first", "find_last"} {
				f(c11Call{Fn: fn, Args: []c11Arg{sArg(s), sArg(sub)}})
				for _, i := range ints {
					f(c11Call{Fn: fn, Args: []c11Arg{sArg(s), sArg(sub), nArg(i)}})
					for _, j := range ints {
						f(c11Call{Fn: fn, Args: []c11Arg{sArg(s), sArg(sub), nArg(i), nArg(j)}})
					}
				}
			}
			for _, fn := range []string{"contains", "starts_with", "ends_with", "eq", "lt"} {
				f(c11Call{Fn: fn, Args: []c11Arg{sArg(s), sArg(sub)}})
			}
			f(c11Call{Fn: "split", Args: []c11Arg{sArg(s), sArg(sub)}})
			for _, n := range ints {
				f(c11Call{Fn: "split", Args: []c11Arg{sArg(s), sArg(sub), nArg(n)}})
			}
			for _, nw := range []string{"", "a", "cc"} {
				f(c11Call{Fn: "replace", Args: []c11Arg{sArg(s), sArg(sub), sArg(nw)}})
				for _, n := range []string{"-1", "0", "1", "2", "5"} {
					f(c11Call{Fn: "replace", Args: []c11Arg{sArg(s), sArg(sub), sArg(nw), nArg(n)}})
				}
			}
		}
		for _, w := range ints {
			for _, fn := range []string{"pad_left", "pad_right"} {
				f(c11Call{Fn: fn, Args: []c11Arg{sArg(s), nArg(w)}})
				for _, pad := range []string{"a", "c", "ab", ""} {
					f(c11Call{Fn: fn, Args: []c11Arg{sArg(s), nArg(w), sArg(pad)}})
				}
			}
		}
		for _, fn := range []string{"trim", "trim_left", "trim_right"} {
			f(c11Call{Fn: fn, Args: []c11Arg{sArg(s)}})
			for _, ch := range []string{"a", "ab", "c", ""} {
				f(c11Call{Fn: fn, Args: []c11Arg{sArg(s), sArg(ch)}})
			}
		}
		for _, t := range short {
			for _, u := range short {
				f(c11Call{Fn: "join", Args: []c11Arg{sArg(s), aArg(t, u)}})
			}
		}
	}
	// ordering: sort / max / min over all triples of short strings
	for _, s := range subs {
		for _, t := range subs {
			for _, u := range subs {
				for _, fn := range []string{"sort", "max", "min", "sort_by", "max_by", "min_by", "map-length"} {
					f(c11Call{Fn: fn, Args: []c11Arg{aArg(s, t, u)}})
				}
			}
		}
	}
}

// strings that are not renamings: combining marks, U+FFFD, mixed widths — differential only, delivered through the document
// strings of 8..17 bytes whose only multi-byte code points sit in the last few bytes (word-at-a-time ASCII tests skip tails)
func c11Tails() []string {
	var out []string
	for n := 5; n <= 17; n++ {
		for _, tail := range []string{"é", "😀", "é!", "€", "éé"} {
			out = append(out, strings.Repeat("a", n-1)+"b"+tail)
		}
	}
	return out
}

var c11Extra = append(c11Tails(), []string{"é", "�", "a�b", "é", "aé", "éa", "€😀", "a😀b", "éé", "́", "😀😀😀", "aé€😀"}...)

func c11EnumerateExtra(f func(c11Call)) {
	ints := []string{"0", "1", "2", "3", "5"}
	for _, s := range c11Extra {
		for _, a := range []string{"", "-2", "-1", "0", "1", "2"} {
			for _, b := range []string{"", "-2", "-1", "0", "1", "2", "3"} {
				for _, st := range []string{"", "-2", "-1", "1", "2"} {
					f(c11Call{Fn: "slice", Args: []c11Arg{sArg(s)}, Slice: "[" + a + ":" + b + ":" + st + "]"})
				}
			}
		}
		f(c11Call{Fn: "length", Args: []c11Arg{sArg(s)}})
		f(c11Call{Fn: "reverse", Args: []c11Arg{sArg(s)}})
		for _, sub := range append([]string{"", "e", "́", "é", "😀", "b"}, c11Extra[:4]...) {
			for _, fn := range []string{"find_first", "find_last"} {
				f(c11Call{Fn: fn, Args: []c11Arg{sArg(s), sArg(sub)}})
				for _, i := range ints {
					f(c11Call{Fn: fn, Args: []c11Arg{sArg(s), sArg(sub), nArg(i)}})
					for _, j := range ints {
						f(c11Call{Fn: fn, Args: []c11Arg{sArg(s), sArg(sub), nArg(i), nArg(j)}})
					}
				}
			}
			f(c11Call{Fn: "split", Args: []c11Arg{sArg(s), sArg(sub)}})
			for _, n := range ints {
				f(c11Call{Fn: "split", Args: []c11Arg{sArg(s), sArg(sub), nArg(n)}})
			}
		}
		for _, w := range ints {
			for _, fn := range []string{"pad_left", "pad_right"} {
				f(c11Call{Fn: fn, Args: []c11Arg{sArg(s), nArg(w)}})
				for _, pad := range []string{"é", "😀", "́", "�", "é"} {
					f(c11Call{Fn: fn, Args: []c11Arg{sArg(s), nArg(w), sArg(pad)}})
				}
			}
		}
	}
}

func init() {
	core.Register(&core.Check{
		ID:    "C11",
		Title: "string operations count Unicode code points and never corrupt text",
		Rule: "every string-handling construct (slices with all start/stop/step in -4..4 or absent, length, reverse, find_first/find_last with 2-4 arguments, pad_left/pad_right, split, replace, join, contains, starts_with, ends_with, trim*, sort/max/min and the *_by forms, ==, <) " +
			"on every string of the alphabet {a,b,c}* up to the stated length with all numeric arguments in -1..6 is evaluated six times: as written and under five order-preserving renamings that between them use every class of UTF-8 lead byte (a->é b->€ c->😀; a->a b->é c->😀; U+0E01/U+D7FF/U+10FFFF; U+0080/U+07FF/U+10000; U+0800/U+FFFD/U+1FFFF), in literal and in document delivery; " +
			"the renamed result must be the renaming of the result; the ASCII point is also compared with the reference model; strings with combining marks and U+FFFD go through the reference comparison only; every result string must be valid UTF-8; lower and upper run on every code point that has a case mapping (thorough: every Unicode scalar value), alone, doubled and between ASCII neighbours: valid UTF-8, compositional, idempotent; " +
			"non-trivial = a non-empty, non-null result; distinct_nontrivial counts distinct such outcomes",
		Phases:      []core.Phase{{Name: "renaming", Build: "instr", Fn: c11Run}, {Name: "case-mapping", Build: "instr", Fn: c11CaseMapping}},
		Judge:       c11Judge,
		Assumptions: []string{"the renamings are injective and preserve code point order, so every code-point-based operation must commute with them", "tick budget 100000 loop iterations per call"},
	})
}

func renameValue(v any, ren func(string) string) any {
	switch x := v.(type) {
	case string:
		return ren(x)
	case []any:
		out := make([]any, len(x))
		for i, e := range x {
			out[i] = renameValue(e, ren)
		}
		return out
	case map[string]any:
		out := make(map[string]any, len(x))
		for k, e := range x {
			out[ren(k)] = renameValue(e, ren)
		}
		return out
	}
	return v
}

func c11Check(r *core.Run, c c11Call, mode string, extra bool) *core.Violation {
	core.EnableTicks(100000)
	expr, docText := c.render(mode, identity)
	d := mkDoc(docText)
	o := core.Search(expr, d.Raw)
	r.Eval(o)
	r.Add("transitions", 1)
	mk := func(kind, ex, dt, exp string, got core.Obs) *core.Violation {
		return &core.Violation{Sig: "C11/" + kind + "/" + c.shape(), Desc: fmt.Sprintf("Search(%q, %s)", ex, dt),
			Point: map[string]any{"expr": ex, "doc": dt, "base_expr": expr, "base_doc": docText, "mode": mode, "kind": kind}, Expected: exp, Actual: got.Short()}
	}
	if o.Kind == "ok" && !core.ValidUTF8(o.Raw) {
		return mk("invalid-utf8", expr, docText, "valid UTF-8", o)
	}
	want := ref.Eval(expr, d.Norm)
	if want.U == "" {
		r.Add("oracle_determinate", 1)
		if k := ref.Diff(o, want); k != "" {
			return mk("reference/"+k, expr, docText, want.String(), o)
		}
	} else {
		r.Add("oracle_abstained", 1)
		r.AbstainOn(want.U)
		if o.Kind == "panic" || o.Kind == "budget" {
			return mk(o.Kind, expr, docText, "a value or an error", o)
		}
	}
	if extra {
		return nil
	}
	for i, ren := range c11Renamings {
		e2, d2 := c.render(mode, ren.Replace)
		dd := mkDoc(d2)
		o2 := core.Search(e2, dd.Raw)
		r.Add("evaluations", 1)
		name := fmt.Sprintf("renaming-%d", i+1)
		if o2.Kind == "ok" && !core.ValidUTF8(o2.Raw) {
			return mk(name+"/invalid-utf8", e2, d2, "valid UTF-8", o2)
		}
		exp := o
		if o.Kind == "ok" {
			exp.Val = renameValue(o.Val, ren.Replace)
		}
		if exp.Key() != o2.Key() {
			return mk(name+"/not-equivariant", e2, d2, "the renamed result of the ASCII point: "+exp.Short(), o2)
		}
	}
	return nil
}

func c11Run(r *core.Run) {
	if bad := refSelfCheck(); bad != "" {
		r.InternalError(bad)
		return
	}
	n := 0
	do := func(extra bool) func(c c11Call) {
		return func(c c11Call) {
			n++
			if !r.Mine(n) || r.Expired() {
				return
			}
			r.Add("states", 1)
			modes := []string{"literal", "doc"}
			if extra {
				modes = []string{"doc"}
			}
			for _, mode := range modes {
				e, d := c.render(mode, identity)
				r.Begin(map[string]any{"expr": e, "doc": d})
				if v := c11Check(r, c, mode, extra); v != nil {
					r.Violate(v)
				}
			}
			if n%5003 == 0 {
				r.Sample(func() any {
					e, d := c.render("doc", c11Rename1.Replace)
					return map[string]any{"renamed_expr": e, "renamed_doc": d}
				})
			}
		}
	}
	c11Enumerate(r.Thorough(), do(false))
	c11EnumerateExtra(do(true))
	// raw string literals in which a backslash that is not an escape stands before a multi-byte character
	for i, lit := range []string{`\é`, `a\éb`, `\😀`, `\€x`, `x\é\€`, `\�`, `\é\\`, `é\a`} {
		if !r.Mine(i) {
			continue
		}
		for _, e := range []string{"'" + lit + "'", "length('" + lit + "')", "reverse('" + lit + "')", "'" + lit + "' == s", "'" + lit + "'[1:]", "['" + lit + "'][0]", "split('" + lit + "', '')", "pad_left('" + lit + "', `6`, '-')"} {
			want := strings.ReplaceAll(lit, `\\\\`, `\\`)
			d := mkDoc(`{"s":` + jsonStr(want) + `}`)
			o := core.Search(e, d.Raw)
			r.Eval(o)
			r.Add("states", 1)
			ref := ref.Eval(e, d.Norm)
			if o.Kind == "ok" && !core.ValidUTF8(o.Raw) {
				r.Violate(&core.Violation{Sig: "C11/invalid-utf8/raw-literal", Desc: fmt.Sprintf("Search(%q, %s)", e, d.Text), Point: map[string]any{"expr": e, "doc": d.Text, "kind": "reference/raw-literal"}, Expected: "valid UTF-8", Actual: o.Short()})
			} else if k := refDiff(o, ref); k != "" {
				r.Violate(&core.Violation{Sig: "C11/reference/" + k + "/raw-literal", Desc: fmt.Sprintf("Search(%q, %s)", e, d.Text), Point: map[string]any{"expr": e, "doc": d.Text, "kind": "reference/raw-literal"}, Expected: ref.String(), Actual: o.Short()})
			}
		}
	}
	r.Bound("max_string_length", map[bool]int{false: 4, true: 6}[r.Thorough()])
	r.Bound("renamings", []string{"a->é b->€ c->😀", "a->a b->é c->😀", "a->U+0E01 b->U+D7FF c->U+10FFFF", "a->U+0080 b->U+07FF c->U+10000", "a->U+0800 b->U+FFFD c->U+1FFFF"})
	r.Bound("extra_strings", c11Extra)
}

// c11CaseMapping: lower and upper on every code point that has a case mapping (thorough: on every Unicode scalar value).
// Which mapping is "the" lowercase is not pinned, so the oracle is structural: the result is valid UTF-8, the mapping of a
// string is the concatenation of the mappings of its code points (with ASCII neighbours), and mapping twice changes nothing.
func c11CaseMapping(r *core.Run) {
	var cps []rune
	for c := rune(0); c <= unicode.MaxRune; c++ {
		if c >= 0xD800 && c <= 0xDFFF {
			continue
		}
		cased := unicode.ToLower(c) != c || unicode.ToUpper(c) != c || unicode.ToTitle(c) != c
		if r.Thorough() || cased || c < 0x3000 || c&0xFFF < 64 || c&0xFFF >= 0xFC0 || c >= 0xFE00 && c <= 0xFFFF {
			cps = append(cps, c)
		}
	}
	r.Bound("case_mapping_code_points", len(cps))
	for i, c := range cps {
		if !r.Mine(i / 64) {
			continue
		}
		if i%4096 == 0 && r.Expired() {
			return
		}
		if v := c11CasePoint(r, c); v != nil {
			r.Violate(v)
		}
		if v := c11TrimPoint(r, c); v != nil {
			r.Violate(v)
		}
	}
}

const c11TrimExpr = "[trim(s), trim_left(s), trim_right(s), trim(t), trim_left(t), trim_right(t), trim_right(u, ''), trim(t, ''), length(u), reverse(s), trim_right(u)[::-1], keys(k)[0], find_first(t, 'a'), pad_left(u, `4`, 'x')]"

// c11TrimPoint: the default trim set is exactly Unicode White_Space: every code point at the edges of a string is either
// removed (if it is white space) or stays whole; compared with the reference; every result valid UTF-8.
func c11TrimPoint(r *core.Run, c rune) *core.Violation {
	ch := string(c)
	d := mkDocRaw(map[string]any{"s": ch + "a" + ch, "t": " " + ch + "a" + ch + "\t", "u": "a" + ch + " ", "k": map[string]any{ch: json.Number("1")}})
	o := prepareImplCached(c11TrimExpr).run(d.Raw)
	r.Eval(o)
	r.Add("states", 1)
	r.Add("transitions", 1)
	mk := func(kind, exp string) *core.Violation {
		return &core.Violation{Sig: "C11/code-point/" + kind, Desc: fmt.Sprintf("%s with s = c+\"a\"+c, t = \" \"+c+\"a\"+c+TAB, u = \"a\"+c+\" \", c = U+%04X", c11TrimExpr, c),
			Point: map[string]any{"expr": c11TrimExpr, "doc": fmt.Sprintf("U+%04X", c), "kind": "trim-point", "cp": fmt.Sprint(int(c))}, Expected: exp, Actual: o.Short()}
	}
	if o.Kind == "ok" && !core.ValidUTF8(o.Raw) {
		return mk("invalid-utf8", "valid UTF-8")
	}
	want := ref.Eval(c11TrimExpr, d.Norm)
	if k := refDiff(o, want); k != "" {
		return mk("reference/"+k, want.String())
	}
	// the same code point written as an escape in a quoted identifier (member name and hash key) and in a JSON literal
	esc := c16U(c)
	for _, e := range []string{`{"` + esc + `": @} | keys(@)[0]`, `{"a` + esc + `b": @} | keys(@)[0] | length(@)`, "`\"" + esc + "\"`", `k."` + esc + `"`, `reverse(keys({"` + esc + `x": @})[0])`} {
		o2 := core.Search(e, d.Raw)
		r.Add("evaluations", 1)
		if o2.Kind == "ok" && !core.ValidUTF8(o2.Raw) {
			o = o2
			return mk("invalid-utf8", "valid UTF-8 from "+e)
		}
		w2 := ref.Eval(e, d.Norm)
		if k := refDiff(o2, w2); k != "" {
			o = o2
			return mk("reference/"+k, w2.String()+" from "+e)
		}
	}
	return nil
}

var c11CaseExpr = lazyExpr{"[lower(s), upper(s), lower(x), upper(x), lower(d), upper(d), lower(lower(s)), upper(upper(s))]"}

func c11CasePoint(r *core.Run, c rune) *core.Violation {
	s := string(c)
	d := map[string]any{"s": s, "x": "x" + s + "y", "d": s + s}
	r.Begin(map[string]any{"expr": c11CaseExpr.Text, "doc": fmt.Sprintf("U+%04X", c)})
	o := c11CaseExpr.run(d)
	r.Eval(o)
	r.Add("states", 1)
	r.Add("transitions", 1)
	mk := func(kind, exp string) *core.Violation {
		return &core.Violation{Sig: "C11/case-mapping/" + kind, Desc: fmt.Sprintf("%s with s = U+%04X, x = \"x\"+s+\"y\", d = s+s", c11CaseExpr.Text, c),
			Point: map[string]any{"expr": c11CaseExpr.Text, "doc": fmt.Sprintf("U+%04X", c), "kind": "case-mapping", "cp": fmt.Sprint(int(c))}, Expected: exp, Actual: o.Short()}
	}
	if o.Kind != "ok" {
		return mk("fails", "a value")
	}
	if !core.ValidUTF8(o.Raw) {
		return mk("invalid-utf8", "valid UTF-8")
	}
	a, ok := o.Val.([]any)
	if !ok || len(a) != 8 {
		return mk("shape", "eight strings")
	}
	str := func(i int) string { x, _ := a[i].(string); return x }
	ls, us := str(0), str(1)
	if c == 0x03A3 {
		return nil // capital sigma: its lowercase legitimately depends on the context under the full Unicode algorithm
	}
	if str(2) != "x"+ls+"y" || str(3) != "X"+us+"Y" {
		return mk("not-compositional", fmt.Sprintf("lower(x) = %q, upper(x) = %q", "x"+ls+"y", "X"+us+"Y"))
	}
	if str(4) != ls+ls || str(5) != us+us {
		return mk("not-compositional", fmt.Sprintf("lower(d) = %q, upper(d) = %q", ls+ls, us+us))
	}
	if str(6) != ls || str(7) != us {
		return mk("not-idempotent", fmt.Sprintf("lower(lower(s)) = %q, upper(upper(s)) = %q", ls, us))
	}
	return nil
}

// c11Judge re-executes a recorded point: the base point is compared with the
// reference, and the (possibly renamed) point with the renamed base result.
func c11Judge(r *core.Run, phase string, pt map[string]any) *core.Violation {
	core.EnableTicks(100000)
	kind := pstr(pt, "kind")
	if kind == "trim-point" {
		var cp int
		fmt.Sscan(pstr(pt, "cp"), &cp)
		return c11TrimPoint(r, rune(cp))
	}
	if kind == "case-mapping" {
		var cp int
		fmt.Sscan(pstr(pt, "cp"), &cp)
		return c11CasePoint(r, rune(cp))
	}
	expr, docText := pstr(pt, "expr"), pstr(pt, "doc")
	d := mkDoc(docText)
	o := core.Search(expr, d.Raw)
	mk := func(exp string) *core.Violation {
		return &core.Violation{Sig: "C11/" + kind + "/replay", Desc: fmt.Sprintf("Search(%q, %s)", expr, docText), Point: pt, Expected: exp, Actual: o.Short()}
	}
	if o.Kind == "ok" && !core.ValidUTF8(o.Raw) {
		return mk("valid UTF-8")
	}
	if o.Kind == "panic" || o.Kind == "budget" {
		return mk("a value or an error")
	}
	switch {
	case strings.HasPrefix(kind, "reference/"):
		want := ref.Eval(expr, d.Norm)
		if want.U == "" && ref.Diff(o, want) != "" {
			return mk(want.String())
		}
	case strings.HasPrefix(kind, "renaming-"):
		be, bd := pstr(pt, "base_expr"), pstr(pt, "base_doc")
		bo := core.Search(be, mkDoc(bd).Raw)
		ren := c11Rename1
		for i := range c11Renamings {
			if strings.HasPrefix(kind, fmt.Sprintf("renaming-%d/", i+1)) {
				ren = c11Renamings[i]
			}
		}
		exp := bo
		if bo.Kind == "ok" {
			exp.Val = renameValue(bo.Val, ren.Replace)
		}
		if exp.Key() != o.Key() {
			return mk("the renamed result of the ASCII point: " + exp.Short())
		}
	}
	return nil
}

func refDiff(o core.Obs, want ref.Res) string {
	if want.U != "" {
		if o.Kind == "panic" {
			return "panic"
		}
		return ""
	}
	return ref.Diff(o, want)
}
