package props

import (
	"math"
	"fmt"
	"strings"

	"github.com/woodsbury/jmespath/internal/verifmc/core"
	"github.com/woodsbury/jmespath/internal/verifmc/ref"
)

// C08 — failures follow the documented error contract; static errors ignore the data.

type c08Fault struct {
	Expr   string
	Cat    string
	Static bool
}

var c08Faults = []c08Fault{
	// static: decided by the text alone
	{"abs()", "invalid-arity", true}, {"abs(a, b)", "invalid-arity", true}, {"length()", "invalid-arity", true}, {"join(a)", "invalid-arity", true}, {"sort_by(a)", "invalid-arity", true},
	{"not_null()", "invalid-arity", true}, {"find_first(a)", "invalid-arity", true}, {"replace(a, b)", "invalid-arity", true}, {"find_last(a, b, c, d, e)", "invalid-arity", true},
	{"sort_by(a, &b, c)", "invalid-arity", true}, {"map(&a, b, c)", "invalid-arity", true}, {"max_by(a, &b, &c)", "invalid-arity", true}, {"group_by(a, &b, `1`)", "invalid-arity", true}, {"min_by(a, &b, c, d)", "invalid-arity", true},
	{"merge()", "invalid-arity", true}, {"trim(a, b, c)", "invalid-arity", true}, {"map(&a)", "invalid-arity", true}, {"zip()", "invalid-arity", true},
	{"nosuch(a)", "unknown-function", true}, {"Abs(a)", "unknown-function", true}, {"nosuch()", "unknown-function", true}, {"to_str(a)", "unknown-function", true},
	{"sort_by(a, b)", "invalid-type", true}, {"map(a, b)", "invalid-type", true}, {"max_by(a, a)", "invalid-type", true}, {"group_by(a, 'k')", "invalid-type", true},
	{"a[::0]", "invalid-value", true}, {"[::0]", "invalid-value", true}, {"a[1:2:0]", "invalid-value", true},
	// dynamic
	{"contains(`1`, `1`)", "invalid-type", false}, {"contains(`{}`, 'a')", "invalid-type", false}, {"ends_with('a', `1`)", "invalid-type", false},
	{"abs('x')", "invalid-type", false}, {"length(`1`)", "invalid-type", false}, {"join(`1`, `[]`)", "invalid-type", false}, {"sum(`[1,\"a\"]`)", "invalid-type", false}, {"keys(`[]`)", "invalid-type", false},
	{"sort(`[1,\"a\"]`)", "invalid-type", false}, {"merge(`1`)", "invalid-type", false}, {"max_by(`[{\"a\":[]}]`, &a)", "invalid-type", false}, {"starts_with(`1`, 'a')", "invalid-type", false},
	{"pad_left('a', `1e400`)", "invalid-value", false}, {"split('a', 'b', `-1e400`)", "invalid-value", false}, {"replace('a', 'b', 'c', `-2e308`)", "invalid-value", false}, {"find_first('a', 'b', `1.5e400`)", "invalid-value", false},
	{"pad_left('a', `-1`)", "invalid-value", false}, {"pad_left('a', `1.5`)", "invalid-value", false}, {"from_items(`[[\"a\"]]`)", "invalid-value", false}, {"from_items(`[[null, 1]]`)", "invalid-value", false}, {"from_items(`[[[1], 1]]`)", "invalid-value", false},
	{"type(chan)", "invalid-type", false}, {"length(chan)", "invalid-type", false}, {"sort(`[null]`)", "invalid-type", false}, {"max(`[true]`)", "invalid-type", false}, {"zip(`1`)", "invalid-type", false}, {"split('a', 'b', `-1`)", "invalid-value", false},
	{"replace('a', 'b', 'c', `-1`)", "invalid-value", false}, {"pad_right('a', `2`, 'xy')", "invalid-value", false}, {"find_first('a', 'b', `0.5`)", "invalid-value", false},
	{"$nope", "undefined-variable", false}, {"[$nope]", "undefined-variable", false}, {"map(&$nope, `[1]`)", "undefined-variable", false}, {"[let $v = `1` in $v, $v][1]", "undefined-variable", false},
	{"`1` / `0`", "not-a-number", false}, {"`1` % `0`", "not-a-number", false}, {"`1` // `0`", "not-a-number", false}, {"`1e6144` * `1e6144`", "not-a-number", false}, {"`-1e6144` - `9e6144` - `9e6144`", "not-a-number", false},
	{"to_string(chan)", "evaluation-failed", false},
	// a fault in an argument that is not the last one, in an operand that is not the first one
	{"merge($nope, `{}`)", "undefined-variable", false}, {"zip($nope, `[1]`)", "undefined-variable", false}, {"not_null($nope, `1`)", "undefined-variable", false}, {"merge({a: `1` / `0`}, `{}`)", "not-a-number", false},
	{"zip([`1` % `0`], `[1]`)", "not-a-number", false}, {"merge({a: pad_left('s', `-1`)}, `{}`, `{}`)", "invalid-value", false}, {"zip(`[1]`, $nope, `[2]`)", "undefined-variable", false},
	{"`null` < $nope", "undefined-variable", false}, {"'s' >= $nope", "undefined-variable", false}, {"missing <= abs('x')", "invalid-type", false}, {"`[]` > `1` / `0`", "not-a-number", false}, {"`true` < pad_left('s', `-1`)", "invalid-value", false},
	{"$nope < `null`", "undefined-variable", false}, {"missing == $nope", "undefined-variable", false}, {"missing != abs('x')", "invalid-type", false}, {"`false` && $nope || $nope", "undefined-variable", false},
	// an invalid argument must be reported whether or not the other arguments make the call a no-op
	{"replace('abc', 'zz', '-', `-1`)", "invalid-value", false}, {"replace('abc', 'zz', '-', `1.5`)", "invalid-value", false}, {"replace('', 'zz', '-', `-1`)", "invalid-value", false}, {"replace('abc', 'zz', '-', 'x')", "invalid-type", false},
	{"split('abc', 'zz', `-1`)", "invalid-value", false}, {"split('', ',', `-1`)", "invalid-value", false}, {"split('abc', 'zz', `0.5`)", "invalid-value", false}, {"pad_left('abcdef', `2`, 'xy')", "invalid-value", false},
	{"pad_right('abcdef', `-1`)", "invalid-value", false}, {"pad_left('abcdef', `2`, '')", "invalid-value", false}, {"find_first('abc', 'zz', `0.5`)", "invalid-value", false}, {"find_last('', 'zz', `0`, `0.5`)", "invalid-value", false},
	{"find_first('abc', '', `0.5`)", "invalid-value", false}, {"join(',', `[]`) && join(`1`, `[]`)", "invalid-type", false}, {"contains('abc', `1`)", "invalid-type", false}, {"starts_with('', `1`)", "invalid-type", false},
	{"fneg / fzero", "not-a-number", false}, {"fpos / fzero", "not-a-number", false}, {"fneg // fzero", "not-a-number", false}, {"fneg % fzero", "not-a-number", false}, {"fpos % fzero", "not-a-number", false}, {"f32neg / f32zero", "not-a-number", false},
	{"fneg / `0`", "not-a-number", false}, {"`-1` / fzero", "not-a-number", false}, {"-fpos / fzero", "not-a-number", false}, {"fneg / fnegzero", "not-a-number", false}, {"fzero / fzero", "not-a-number", false}, {"f32neg // fzero", "not-a-number", false},
	{"sort_by(`[]`, &abs('x'))", "", false}, {"map(&abs('x'), `[]`)", "", false}, {"max_by(`[{\"a\":1}]`, &abs('x'))", "invalid-type", false}, {"sum(`[]`) + abs('x')", "invalid-type", false},
}

// syntax faults are whole strings (they cannot be embedded as a sub-expression without staying malformed)
var c08Syntax = []string{"a[", "a.", "'unterminated", "a b", "a ||", "[a,", "{a: }", "a[?b", "abs(a", "a | | b", ")", "a.[", "`{`", "\"\\x\"", "a[1 2]", "&a", "a.1", "#", "a\xff", "let $x = in a", "let x = a in b", "a[*", "a.b.", "@@", "a[0]]",
	"in", "let", " in ", "a\u00a0", "\u000ba", "a\u3000", "\u0085a", "\fa", "a.in", "in.a", "{let: a}", "{a: in}",
	// JSON literals whose well-formed value is followed by a stray closer or more text
	"`[1, 2]]`", "`{\"a\": 1}}`", "`1]`", "`\"a\"}`", "`true]`", "`null }`", "`[1] [2]`", "`1 2`", "`[1],`", "`{}]`", "`[]}`", "`1}`", "`\"a\" ]`",
	// a trailing comma in argument lists, multi-selects and hashes
	"merge(a,)", "not_null(a, b,)", "zip(a,)", "abs(a,)", "join(a, b,)", "[a,]", "{a: b,}", "merge(,a)", "merge(a,,b)", "sort_by(a, &b,)"}

type c08Carrier struct {
	Name      string
	Tmpl      string // %s = the faulty sub-expression
	Reachable func(docText string) bool
}

var c08Carriers = []c08Carrier{
	{"top", "%s", nil}, {"paren", "(%s)", nil}, {"list", "[%s, a]", nil}, {"hash", "{k: a, l: %s}", nil}, {"pipe-rhs", "a | %s", nil}, {"pipe-lhs", "%s | a", nil},
	{"or-lhs", "%s || a", nil}, {"not", "!%s", nil}, {"eq", "%s == a", nil}, {"arg", "not_null(%s)", nil}, {"let-binding", "let $v = %s in a", nil}, {"let-body", "let $v = a in %s", nil},
	{"projection-rhs", "arr[*].[%s]", nil}, {"filter", "arr[?%s]", nil}, {"expref-body", "map(&[%s], arr)", nil}, {"flatten-rhs", "arr[].[%s]", nil},
	{"lt-rhs", "missing < %s", nil}, {"ge-rhs", "'s' >= %s", nil}, {"lt-lhs", "%s < missing", nil}, {"eq-rhs", "missing == %s", nil}, {"first-of-variadic", "not_null(%s, a, b)", nil}, {"first-of-merge", "[merge(%s, `{}`), a][1]", nil},
	{"dead-and", "`false` && %s", nil}, {"dead-or", "`true` || %s", nil}, {"dead-and-lit", "`[]` && %s", nil},
}

var c08DocTexts = []string{
	`{"a":1,"b":2,"arr":[1,2]}`, `{"a":null,"arr":[]}`, `{"arr":[null]}`, `{}`, `null`, `[]`, `"s"`, `{"a":[1],"arr":[{"a":1}],"b":"x","c":0,"d":1,"e":2}`,
	`{"arr":"notarray"}`, `{"a":{"b":1},"arr":[[1],[2]]}`, `[1,2,3]`, `{"a":"x","b":"y"}`,
}

func c08Docs() []doc {
	var out []doc
	for _, t := range c08DocTexts {
		d := mkDoc(t)
		// every object document also carries an unserialisable value under "chan"
		if m, ok := d.Raw.(map[string]any); ok {
			m["chan"] = make(chan int)
			// numbers carried by Go floats: a division by zero on the float path is a not-a-number fault like any other
			m["fneg"], m["fzero"], m["fpos"], m["f32neg"], m["f32zero"], m["fnegzero"] = float64(-1), float64(0), float64(2.5), float32(-1), float32(0), math.Copysign(0, -1)
			d.Norm = core.Norm(d.Raw)
		}
		out = append(out, d)
	}
	return out
}

func init() {
	core.Register(&core.Check{
		ID:    "C08",
		Title: "failures follow the documented error contract and static errors ignore the data",
		Rule: "every fault of the menu (arity, unknown function, expression-reference position, slice step 0, dynamic invalid-type / invalid-value sites, undefined variables, division by zero and overflow, unserialisable values) in every carrier context " +
			"(top level, parentheses, multi-select, pipe, operators, function argument, let binding and body, projection right-hand side, filter, expression-reference body, dead side of && / ||), every ordered pair of faults, and every malformed string of the syntax menu " +
			"is run through Compile, Compile+Search and one-shot Search on every document (including documents that make the faulty code unreachable): a failure returns a nil result and an error matching exactly one exported category, the one the reference names; " +
			"static faults fail Compile and fail Search identically on every document; a compiled Expression never reports syntax, arity or unknown-function over the whole valid space of C01/C02/C19; " +
			"non-trivial = a call that fails; distinct_nontrivial counts distinct (carrier, category) outcomes",
		Phases: []core.Phase{{Name: "faults", Build: "instr", Fn: c08RunFaults}, {Name: "valid-space", Build: "instr", Fn: c08RunValid}, {Name: "after-a-failure", Build: "instr", Fn: c08RunAfter}},
		Judge:  c08Judge,
		Assumptions: []string{
			"for an expression-reference written where a value is expected both invalid-type (specification) and syntax (the implementation rejects the text) are accepted",
			"multi-fault expressions may report any of the categories present",
		},
	})
}

var c08StaticCats = map[string]bool{"syntax": true, "invalid-arity": true, "unknown-function": true}

// c08Check judges one expression on all documents through the three routes.
func c08Check(r *core.Run, expr, family string, accept []string, docs []doc) *core.Violation {
	c := prepare(expr)
	mk := func(kind, exp string, o core.Obs, d string) *core.Violation {
		return &core.Violation{Sig: "C08/" + kind + "/" + family, Desc: fmt.Sprintf("Search(%q, %s)", expr, d),
			Point: map[string]any{"expr": expr, "doc": d, "family": family, "accept": strings.Join(accept, ",")}, Expected: exp, Actual: o.Short()}
	}
	contract := func(o core.Obs, d string) *core.Violation {
		switch {
		case o.Kind == "panic":
			return mk("panic", "a result or an error", o, d)
		case o.Kind != "err":
			return nil
		case o.BothSet:
			return mk("result-beside-error", "a nil result beside the error", o, d)
		case o.FmtFail != "":
			return mk("error-unformattable", "an error that can be formatted", o, d)
		case len(o.Cats) != 1:
			return mk(fmt.Sprintf("matches-%d-categories", len(o.Cats)), "an error matching exactly one exported category", o, d)
		}
		return nil
	}
	if v := contract(c.CompObs, "-"); v != nil {
		return v
	}
	static := c.Prose.Syntax || len(c.Prose.Static) > 0
	for i, d := range docs {
		one := core.Search(expr, d.Raw)
		r.Eval(one)
		r.Add("transitions", 1)
		if v := contract(one, d.Text); v != nil {
			return v
		}
		if one.Kind == "err" {
			r.Add("nontrivial_evaluations", 1)
			r.Outcome(family + "→" + one.Cats[0])
		}
		// cross-route: Compile + Expression.Search gives what one-shot Search gives
		two := c.run(d.Raw)
		r.Add("evaluations", 1)
		if two.Key() != one.Key() {
			return mk("routes-differ", "Compile+Search == Search: "+one.Short(), two, d.Text)
		}
		if c.Expr != nil && two.Kind == "err" && c08StaticCats[two.Cats[0]] {
			return mk("compiled-expression-reports-static-error", "no syntax / arity / unknown-function error from a compiled Expression", two, d.Text)
		}
		if static {
			// data independence: the same failure for every document, and already from Compile
			if c.Expr != nil {
				return mk("static-fault-compiles", "Compile fails", core.Obs{Kind: "ok", Val: "compiled"}, "-")
			}
			if one.Kind != "err" || one.Key() != c.CompObs.Key() {
				return mk("static-fault-depends-on-data", "the Compile failure for every document: "+c.CompObs.Short(), one, d.Text)
			}
		}
		want := c.refEval(d.Norm)
		if want.U != "" {
			r.Add("oracle_abstained", 1)
			continue
		}
		r.Add("oracle_determinate", 1)
		if want.IsError() && len(accept) > 0 {
			want.Err = append(append([]string{}, want.Err...), accept...)
		}
		if k := ref.Diff(one, want); k != "" {
			return mk(k, want.String(), one, d.Text)
		}
		_ = i
	}
	return nil
}

func c08RunFaults(r *core.Run) {
	if bad := refSelfCheck(); bad != "" {
		r.InternalError(bad)
		return
	}
	docs := c08Docs()
	r.Bound("faults", len(c08Faults))
	r.Bound("carriers", len(c08Carriers))
	r.Bound("syntax_strings", len(c08Syntax))
	r.Bound("documents", len(docs))
	n := 0
	do := func(expr, family string, accept []string) {
		n++
		if !r.Mine(n) || r.Expired() {
			return
		}
		r.Add("states", 1)
		r.Begin(map[string]any{"expr": expr, "doc": "all"})
		if v := c08Check(r, expr, family, accept, docs); v != nil {
			r.Violate(v)
		}
		if n%211 == 0 {
			r.Sample(func() any { return map[string]any{"expr": expr, "family": family} })
		}
	}
	for _, f := range c08Faults {
		for _, c := range c08Carriers {
			do(fmt.Sprintf(c.Tmpl, f.Expr), c.Name+"/"+f.Cat, nil)
		}
	}
	for _, s := range c08Syntax {
		do(s, "syntax", nil)
		for _, c := range c08Carriers[1:8] {
			do(fmt.Sprintf(c.Tmpl, s), c.Name+"/syntax", nil)
		}
	}
	if r.Thorough() {
		// every fault under every ordered pair of carriers
		for _, f := range c08Faults {
			for _, c1 := range c08Carriers[1:] {
				for _, c2 := range c08Carriers[1:] {
					do(fmt.Sprintf(c1.Tmpl, fmt.Sprintf(c2.Tmpl, f.Expr)), c1.Name+"+"+c2.Name+"/"+f.Cat, nil)
				}
			}
		}
		// the arity and expression-reference table of every function: 0..6 plain arguments, and an expression reference at each position
		for _, name := range ref.FunctionNames() {
			for n := 0; n <= 6; n++ {
				args := make([]string, n)
				for i := range args {
					args[i] = "a"
				}
				do(name+"("+strings.Join(args, ", ")+")", "arity-table", nil)
				for p := 0; p < n; p++ {
					args[p] = "&a"
					do(name+"("+strings.Join(args, ", ")+")", "expref-table", nil)
					args[p] = "a"
				}
			}
		}
	}
	// all ordered pairs of faults: any category present is acceptable
	for _, f1 := range c08Faults {
		for _, f2 := range c08Faults {
			accept := []string{f1.Cat, f2.Cat}
			do("["+f1.Expr+", "+f2.Expr+"]", "pair-list", accept)
			do(f1.Expr+" || "+f2.Expr, "pair-or", accept)
			if r.Thorough() {
				do("{k: "+f1.Expr+", l: "+f2.Expr+"}", "pair-hash", accept)
				do("not_null("+f1.Expr+", "+f2.Expr+")", "pair-args", accept)
				do("arr[*].["+f1.Expr+", "+f2.Expr+"]", "pair-projection", accept)
			}
		}
	}
}

// c08RunValid: a compiled Expression never reports a static category, over the valid spaces of the other checks.
func c08RunValid(r *core.Run) {
	core.EnableTicks(c02TickBudget)
	all := c01Docs(false)
	var docs []doc
	stride, c19Stride, c02Stride := 60, 7, 17
	if r.Thorough() {
		stride, c19Stride, c02Stride = 6, 1, 3
	}
	for i := 0; i < len(all); i += stride {
		docs = append(docs, all[i])
	}
	docs = append(docs, c08Docs()...)
	var exprs []string
	for _, e := range c01Expressions(false) {
		exprs = append(exprs, e.Text)
	}
	for i, e := range c19Expressions(false) {
		if i%c19Stride == 0 {
			exprs = append(exprs, e.Text)
		}
	}
	for _, name := range ref.FunctionNames() {
		k := 0
		c02Calls(name, false, func(c c02Call) {
			k++
			if k%c02Stride == 0 && c.Doc == "null" && !(strings.HasPrefix(name, "pad_") && strings.Contains(c.Expr, "9223372036854775807")) {
				exprs = append(exprs, c.Expr)
			}
		})
	}
	r.Bound("valid_space_expressions", len(exprs))
	r.Bound("valid_space_documents", len(docs))
	for i, e := range exprs {
		if !r.Mine(i) {
			continue
		}
		if r.Expired() {
			return
		}
		c := prepareImpl(e)
		r.Add("states", 1)
		if c.Expr == nil {
			continue // statically invalid members of those spaces are judged by the fault phase and by C04
		}
		for _, d := range docs {
			o := c.run(d.Raw)
			r.Add("evaluations", 1)
			r.Add("transitions", 1)
			bad := ""
			switch {
			case o.Kind == "err" && len(o.Cats) != 1:
				bad = fmt.Sprintf("matches-%d-categories", len(o.Cats))
			case o.Kind == "err" && c08StaticCats[o.Cats[0]]:
				bad = "compiled-expression-reports-static-error"
			case o.Kind == "err" && o.BothSet:
				bad = "result-beside-error"
			case o.Kind == "err" && o.FmtFail != "":
				bad = "error-unformattable"
			}
			if bad != "" {
				r.Violate(&core.Violation{Sig: "C08/" + bad + "/valid-space", Desc: fmt.Sprintf("Compile(%q).Search(%s)", e, d.Text),
					Point: map[string]any{"expr": e, "doc": d.Text, "family": "valid-space"}, Expected: "no static category, exactly one category, nil result", Actual: o.Short()})
			}
		}
	}
}

func c08Judge(r *core.Run, phase string, pt map[string]any) *core.Violation {
	if pbool(pt, "after") {
		return c08AfterPoint(r, pstr(pt, "first"), pstr(pt, "expr"), pint(pt, "di"))
	}
	var accept []string
	if a := pstr(pt, "accept"); a != "" {
		accept = strings.Split(a, ",")
	}
	return c08Check(r, pstr(pt, "expr"), pstr(pt, "family"), accept, c08Docs())
}

// phase "after-a-failure": a call that fails half-way must leave nothing behind that a later call can see. Every fault
// of the menu is put into constructs that have already stored something when the fault strikes (the second binding of a
// let, the second member of a hash or list, a later element of a projection, a later argument); then every probe is
// evaluated - among them lets that refer to names only the failed let bound, which must be undefined variables.
var c08AfterCarriers = []string{"let $v = 'eu', $w = %s in [$v, $w]", "let $a = `1`, $b = %s, $c = `3` in $a", "let $v = a in let $w = %s in $v", "{p: 'x', q: %s}", "[a, %s]", "join(',', ['x', to_string(%s)])",
	"arr[*].[@, %s]", "map(&[@, %s], arr)", "sort_by(arr, &%s)", "merge({k: 'v'}, {l: %s})", "arr[?%s]", "[arr[*].[@], %s]", "not_null(missing, %s)", "let $v = 'eu' in [let $w = %s in $w, $v]"}

var c08AfterProbes = []string{"let $c = a in [$c, $v]", "let $c = a in $w", "let $p = `1` in [$p, $a]", "$v", "[$v]", "let $z = `0` in let $y = `1` in [$b, $c]", "let $q = `1` in $w", "{p: a}", "[a, b]", "join(',', ['x', 'y'])",
	"arr[*].[@]", "map(&[@], arr)", "merge({k: 'v'}, {l: 'w'})", "sort_by(arr, &@)", "let $v = 'us' in [$v]", "let $w = a in let $x = b in [$w, $x]", "arr[?@]", "[arr[*].[@], a]", "not_null(missing, a)", "let $c = a in arr[*].[$v]", "map(&$w, arr)"}

func c08RunAfter(r *core.Run) {
	if bad := refSelfCheck(); bad != "" {
		r.InternalError(bad)
		return
	}
	r.Bound("after_a_failure_carriers", len(c08AfterCarriers))
	r.Bound("after_a_failure_probes", len(c08AfterProbes))
	n := 0
	for _, f := range c08Faults {
		for _, c := range c08AfterCarriers {
			first := fmt.Sprintf(c, f.Expr)
			n++
			if !r.Mine(n) || r.Expired() {
				continue
			}
			r.Add("states", 1)
			for _, g := range c08AfterProbes {
				for di := 0; di < 2; di++ {
					r.Begin(map[string]any{"expr": g, "doc": "after " + first})
					if v := c08AfterPoint(r, first, g, di); v != nil {
						r.Violate(v)
					}
				}
			}
		}
	}
}

func c08AfterPoint(r *core.Run, first, probe string, di int) *core.Violation {
	docs := c08Docs()
	d := docs[[]int{0, 7}[di%2]]
	want := ref.Eval(probe, d.Norm)
	if want.U != "" {
		r.AbstainOn(want.U)
		return nil
	}
	for route := 0; route < 2; route++ {
		var o core.Obs
		name := "Search"
		if route == 0 {
			core.Search(first, d.Raw)
			o = core.Search(probe, d.Raw)
		} else {
			name = "Compile + Expression.Search"
			if e, _ := core.Compile(first); e != nil {
				core.ExprSearch(e, d.Raw)
			}
			e, co := core.Compile(probe)
			o = co
			if e != nil {
				o = core.ExprSearch(e, d.Raw)
			}
		}
		r.Eval(o)
		r.Add("transitions", 2)
		if k := ref.Diff(o, want); k != "" {
			return &core.Violation{Sig: "C08/after-a-failure/" + k + "/" + fnOf(probe), Desc: fmt.Sprintf("%s(%q, %s) right after %s(%q) on the same document", name, probe, d.Text, name, first),
				Point: map[string]any{"after": true, "first": first, "expr": probe, "di": di, "doc": "after " + first}, Expected: want.String(), Actual: o.Short()}
		}
	}
	return nil
}
