package props

import (
	"encoding/json"
	"fmt"
	"math"
	"math/big"
	"strings"

	"github.com/woodsbury/decimal128"
	"github.com/woodsbury/jmespath/internal/verifmc/core"
)

// C14 — results do not depend on which Go type carries a number (form G over
// configurations; metamorphic: every configuration against the json.Number one).

var c14Kinds = []string{"json.Number", "int", "int8", "int16", "int32", "int64", "uint", "uint8", "uint16", "uint32", "uint64", "float32", "float64", "decimal128"}

var c14Values = []string{"-7", "-2", "-1", "0", "1", "2", "3", "8", "0.5", "1.5", "-3.5", "255", "2147483648", "2.0", "3e0", "20e-1", "-0.0", "5e-1", "25e-1", "-25E-1", "2.50",
	// beyond the 53-bit mantissa and beyond int64: only for forms that compare or order (no arithmetic)
	"9007199254740992", "9007199254740993", "9223372036854775807", "9223372036854775808", "18446744073709551615", "-9223372036854775808"}

// c14MoreValues (thorough): the boundaries of every fixed-width kind, one past them, more dyadic fractions, more spellings.
var c14MoreValues = []string{"-128", "-129", "127", "128", "256", "-32768", "-32769", "32767", "32768", "65535", "65536", "-2147483648", "-2147483649", "2147483647",
	"4294967295", "4294967296", "16777216", "16777217", "-16777217", "0.25", "-0.125", "0.75", "1e3", "100", "1024", "10e1", "4503599627370496", "-9007199254740993", "9223372036854775806", "18446744073709551614"}

func c14ValueList(thorough bool) []string {
	if thorough {
		return append(append([]string{}, c14Values...), c14MoreValues...)
	}
	return c14Values
}

// three-leaf forms (thorough): every ordered triple of kinds over a small value set.
var c14TripleForms = []string{"sort([x, y, z])", "max([x, y, z])", "min([z, y, x])", "x + y + z", "x * y - z", "x < y && y < z", "x <= y || y <= z", "[x, y, z] == [z, y, x]", "sum([x, y, z])", "avg([x, y, z, z])",
	"contains([x, y], z)", "sort_by([{k: x, i: `0`}, {k: y, i: `1`}, {k: z, i: `2`}], &k)[*].i", "max_by([{k: x, i: `0`}, {k: y, i: `1`}, {k: z, i: `2`}], &k).i", "[x, y, z][?@ > `0`]", "not_null(`null`, x, y, z)", "{a: x, b: y} == {b: z, a: x}",
	"[x, y, z][::-1]", "x == y && y == z"}
var c14TripleValues = []string{"-1", "0", "1", "2", "0.5", "255", "1.0"}

func c14Triple(r *core.Run, expr, kx, ky, kz, vx, vy, vz string) *core.Violation {
	x, ok1 := carry(kx, vx)
	y, ok2 := carry(ky, vy)
	z, ok3 := carry(kz, vz)
	if !ok1 || !ok2 || !ok3 {
		return nil
	}
	base := map[string]any{"x": json.Number(vx), "y": json.Number(vy), "z": json.Number(vz)}
	c := prepareImplCached(expr)
	ob := c.run(base)
	o := c.run(map[string]any{"x": x, "y": y, "z": z})
	r.Eval(ob)
	r.Add("evaluations", 1)
	r.Add("transitions", 1)
	if ob.Key() == o.Key() {
		return nil
	}
	return &core.Violation{Sig: "C14/triple " + expr + "/" + c14KindClass(kx) + "," + c14KindClass(ky) + "," + c14KindClass(kz),
		Desc:     fmt.Sprintf("Search(%q) with x=%s as %s, y=%s as %s, z=%s as %s", expr, vx, kx, vy, ky, vz, kz),
		Point:    map[string]any{"form": "triple", "expr": expr, "kx": kx, "ky": ky, "kz": kz, "vx": vx, "vy": vy, "vz": vz, "doc": fmt.Sprintf(`{"x":%s,"y":%s,"z":%s} carried by %s,%s,%s`, vx, vy, vz, kx, ky, kz)},
		Expected: "the json.Number outcome: " + ob.Short(), Actual: o.Short()}
}

// carry builds the Go value of the given kind holding the number, if it can.
func carry(kind, text string) (any, bool) {
	r, ok := core.ParseDecimal(text)
	if !ok {
		return nil, false
	}
	isInt := r.IsInt()
	var i int64
	if isInt {
		if !r.Num().IsInt64() {
			// beyond int64: only uint64, uint, the floats (when exact), json.Number and decimal128 can carry it
			switch kind {
			case "uint64", "uint":
				if r.Num().IsUint64() {
					if kind == "uint" {
						return uint(r.Num().Uint64()), true
					}
					return r.Num().Uint64(), true
				}
				return nil, false
			case "json.Number", "decimal128", "float32", "float64":
			default:
				return nil, false
			}
		} else {
			i = r.Num().Int64()
		}
	}
	f, _ := r.Float64()
	inRange := func(lo, hi int64) bool { return isInt && i >= lo && i <= hi }
	switch kind {
	case "json.Number":
		return json.Number(text), true
	case "int":
		return int(i), isInt
	case "int8":
		return int8(i), inRange(math.MinInt8, math.MaxInt8)
	case "int16":
		return int16(i), inRange(math.MinInt16, math.MaxInt16)
	case "int32":
		return int32(i), inRange(math.MinInt32, math.MaxInt32)
	case "int64":
		return i, isInt
	case "uint":
		return uint(i), isInt && i >= 0
	case "uint8":
		return uint8(i), inRange(0, math.MaxUint8)
	case "uint16":
		return uint16(i), inRange(0, math.MaxUint16)
	case "uint32":
		return uint32(i), inRange(0, math.MaxUint32)
	case "uint64":
		return uint64(i), isInt && i >= 0
	case "float32":
		g := float32(f)
		back := new(big.Rat)
		back.SetFloat64(float64(g))
		return g, back.Cmp(r) == 0
	case "float64":
		back := new(big.Rat)
		back.SetFloat64(f)
		return f, back.Cmp(r) == 0
	case "decimal128":
		d, err := decimal128.Parse(text)
		return d, err == nil
	}
	return nil, false
}

type c14Form struct {
	Name  string
	Expr  string
	Arity int // number leaves: 1 or 2
	// Guard decides from the exact values whether every intermediate result is
	// representable in every carrier.
	Guard func(x, y *big.Rat) bool
}

func dyadic(r *big.Rat) bool {
	d := r.Denom()
	return d.BitLen() > 0 && new(big.Int).And(d, new(big.Int).Sub(d, big.NewInt(1))).Sign() == 0 && d.BitLen() < 40
}

func c14Forms() []c14Form {
	var fs []c14Form
	huge := func(r *big.Rat) bool { return new(big.Rat).Abs(r).Cmp(big.NewRat(1<<40, 1)) > 0 }
	always := func(x, y *big.Rat) bool { return !huge(x) && !huge(y) }
	ordering := func(x, y *big.Rat) bool { return true } // comparing and ordering are exact for every carrier
	small := func(x, y *big.Rat) bool {                  // compound forms and size-driving arguments: keep to small magnitudes
		lim := big.NewRat(256, 1)
		return new(big.Rat).Abs(x).Cmp(lim) < 0 && new(big.Rat).Abs(y).Cmp(lim) < 0
	}
	// the exact result must fit the 53-bit mantissa of the float carriers (2147483647 x 16777217 does not)
	fits53 := func(r *big.Rat) bool {
		if !dyadic(r) {
			return false
		}
		n := new(big.Int).Abs(r.Num())
		for n.Sign() != 0 && n.Bit(0) == 0 {
			n.Rsh(n, 1)
		}
		return n.BitLen() <= 53
	}
	for _, op := range []string{"+", "-", "*", "−", "×"} {
		op := op
		fs = append(fs, c14Form{"arith " + op, "x " + op + " y", 2, func(x, y *big.Rat) bool {
			if !always(x, y) {
				return false
			}
			switch op {
			case "+":
				return fits53(new(big.Rat).Add(x, y))
			case "-", "−":
				return fits53(new(big.Rat).Sub(x, y))
			}
			return fits53(new(big.Rat).Mul(x, y))
		}})
	}
	for _, op := range []string{"/", "÷"} {
		fs = append(fs, c14Form{"arith " + op, "x " + op + " y", 2, func(x, y *big.Rat) bool {
			return y.Sign() == 0 || dyadic(new(big.Rat).Quo(x, y))
		}})
	}
	for _, op := range []string{"//", "%"} {
		fs = append(fs, c14Form{"arith " + op, "x " + op + " y", 2, always})
	}
	for _, op := range []string{"<", "<=", ">", ">=", "==", "!="} {
		fs = append(fs, c14Form{"cmp " + op, "x " + op + " y", 2, ordering})
	}
	for _, e := range []string{"[x] == [y]", "{k: x} == {k: y}", "contains([x, `1`], y)", "contains(l, y)", "max([x, y])", "min([x, y])", "sort([x, y])", "sort([y, x, x])", "max(l)", "min(l)", "sort(l)", "sort(l)[-1] == max(l)",
		"sort_by(o, &k)[*].i", "max_by(o, &k).i", "min_by(o, &k).i", "l[?@ > `1`]", "[x, y][?@ >= `9007199254740993`]", "x == y || x < y || x > y", "type(x)", "x && y", "!x", "not_null(x, y)", "l == [x, y]", "to_array(x)", "x == `9007199254740993`"} {
		fs = append(fs, c14Form{"big " + e, e, 2, ordering})
	}
	for _, e := range []string{"[x] == [y]", "{k: x} == {k: y}", "[x, y] == [y, x]", "contains([x, `1`], y)", "contains(l, y)", "x && y", "x || y", "[x, y][?@ == `1`]",
		"l[?@ > `1`]", "l[?@]", "sum([x, y])", "avg([x, x])", "avg([x, y, x, y])", "max([x, y])", "min([x, y])", "sort([x, y])", "sort([y, x, x])", "max(l)", "min(l)", "sort(l)",
		"sort_by(o, &k)[*].k", "max_by(o, &k).k", "min_by(o, &k).k", "sort_by(o, &k)[*].i", "not_null(x, y)", "not_null(`null`, y)", "l == [x, y]", "zip(l, l)", "reverse(l)", "l[::-1]",
		"to_array(x)", "[x, y] | [0] + [1]", "merge({a: x}, {b: y})", "x + y * x", "(x - y) * (x + y)", "-x + y", "abs(x) + abs(y)", "[x, y][?@ >= `0`] | length(@)"} {
		g := always
		if strings.ContainsAny(e, "*+") {
			g = small // sums and products of 2^31 leave the 53-bit mantissa of the float carriers
		}
		fs = append(fs, c14Form{e, e, 2, g})
	}
	for _, e := range []string{"-x", "+x", "−x", "!x", "type(x)", "abs(x)", "ceil(x)", "floor(x)", "to_number(x)", "to_array(x)", "not_null(x)", "[x][?@]", "x == `1`", "x < `1.5`", "x >= `-1`",
		"[x] == `[2]`", "x == x", "x != x", "sum([x])", "avg([x])", "max([x])", "sort([x])", "type([x][0])", "x + `1`", "`0.5` * x", "-(-x)", "x - x", "contains(`[1, 2, 0.5]`, x)",
		"pad_left('a', x)", "pad_right('a', x, '-')", "split('a,b,c,d', ',', x)", "replace('aaaa', 'a', 'b', x)", "find_first('abcabc', 'b', x)", "find_last('abcabc', 'b', `0`, x)",
		"x && 'yes'", "x || 'no'", "[x, 'a'][?@ == `2`]", "{v: x}.v", "let $n = x in [$n, $n + `1`]", "map(&(@ + `1`), [x])", "length(to_array(x))"} {
		g := always
		if strings.Contains(e, "pad_") || strings.Contains(e, "split(") || strings.Contains(e, "replace(") || strings.Contains(e, "find_") {
			g = small // a pad width of 2^31 legitimately produces a 2 GiB string
		}
		fs = append(fs, c14Form{e, e, 1, g})
	}
	// to_string only for integers (the spelling of fractions is not pinned across carriers)
	// and below 2^24: encoding/json prints a float32 with the shortest text that round-trips as float32 (2^31 -> 2147483600)
	fs = append(fs, c14Form{"to_string(x)", "to_string(x)", 1, func(x, y *big.Rat) bool { return x.IsInt() && small(x, y) }})
	fs = append(fs, c14Form{"to_string([x])", "to_string([x])", 1, func(x, y *big.Rat) bool { return x.IsInt() && small(x, y) }})
	return fs
}

func init() {
	core.Register(&core.Check{
		ID:    "C14",
		Title: "results do not depend on which Go type carries a number",
		Rule: "for every expression form of the menu (all binary arithmetic operators and comparators, equality inside containers, truthiness, type, the numeric and ordering functions, unary signs, every integer-argument position) and every value (pair) of the value alphabet, " +
			"the number leaves of the document are carried by every Go numeric kind able to hold the value exactly - all 14 single kinds and all 14x14 ordered pairs of kinds for two-leaf forms, and records of 12..40 elements with tied keys carried by every pair of kinds through the ordering functions (thorough: the boundaries of every fixed-width kind as values, and all 14x14x14 ordered triples of kinds for three-leaf forms) - and the observation must equal, by value, the observation of the all-json.Number configuration; " +
			"non-trivial = a non-null, non-empty, non-error baseline outcome; distinct_nontrivial counts distinct such outcomes",
		Phases: []core.Phase{{Name: "carriers", Build: "instr", Fn: c14Run}},
		Judge:  c14Judge,
		Assumptions: []string{
			"values are dyadic rationals exactly representable in every kind used; divisions whose exact quotient is not dyadic are excluded (binary and decimal carriers legitimately round differently)",
			"to_string is compared for integers only",
		},
	})
}

func c14Doc(kx, ky, vx, vy string) (any, bool) {
	x, ok1 := carry(kx, vx)
	y, ok2 := carry(ky, vy)
	if !ok1 || !ok2 {
		return nil, false
	}
	one, _ := carry(ky, "1")
	if ky == "float32" || ky == "float64" {
		one, _ = carry(ky, "1")
	}
	return map[string]any{
		"x": x, "y": y,
		"l": []any{x, y},
		"o": []any{map[string]any{"k": x, "i": "first"}, map[string]any{"k": y, "i": "second"}, map[string]any{"k": one, "i": "third"}},
	}, true
}

func c14Check(r *core.Run, f c14Form, kx, ky, vx, vy string) *core.Violation {
	rx, _ := core.ParseDecimal(vx)
	ry, _ := core.ParseDecimal(vy)
	if strings.HasPrefix(f.Name, "to_string") && strings.ContainsAny(vx, ".eE") {
		r.AbstainOn("to_string of an integer spelled with a fraction or an exponent: the spelling is the carrier's")
		return nil
	}
	if !f.Guard(rx, ry) {
		r.AbstainOn("an intermediate value is not exactly representable in every carrier")
		return nil
	}
	d, ok := c14Doc(kx, ky, vx, vy)
	if !ok {
		return nil
	}
	base, _ := c14Doc("json.Number", "json.Number", vx, vy)
	c := prepareImplCached(f.Expr)
	ob := c.run(base)
	o := c.run(d)
	r.Eval(ob)
	r.Add("evaluations", 1)
	r.Add("transitions", 1)
	if ob.Key() == o.Key() {
		return nil
	}
	kinds := kx
	if f.Arity == 2 {
		kinds = kx + "," + ky
	}
	return &core.Violation{Sig: "C14/" + f.Name + "/" + c14KindClass(kx) + "," + c14KindClass(ky),
		Desc:     fmt.Sprintf("Search(%q) with x=%s as %s, y=%s as %s", f.Expr, vx, kx, vy, ky),
		Point:    map[string]any{"form": f.Name, "expr": f.Expr, "kx": kx, "ky": ky, "vx": vx, "vy": vy, "doc": fmt.Sprintf(`{"x":%s,"y":%s} carried by %s`, vx, vy, kinds)},
		Expected: "the json.Number outcome: " + ob.Short(), Actual: o.Short()}
}

func c14KindClass(k string) string {
	switch {
	case strings.HasPrefix(k, "float"):
		return "float"
	case strings.HasPrefix(k, "uint"):
		return "uint"
	case strings.HasPrefix(k, "int"):
		return "int"
	}
	return k
}

var implCache = map[string]*compiled{}

func prepareImplCached(text string) *compiled {
	if c, ok := implCache[text]; ok {
		return c
	}
	if len(implCache) >= 20000 {
		// a worker that meets millions of different expressions must not keep them all
		implCache = map[string]*compiled{}
	}
	c := prepareImpl(text)
	implCache[text] = c
	return c
}

func c14Run(r *core.Run) {
	forms := c14Forms()
	r.Bound("forms", len(forms))
	r.Bound("kinds", c14Kinds)
	values := c14ValueList(r.Thorough())
	r.Bound("values", values)
	n := 0
	{
		// quick: six representative kinds and four values; thorough: all 14 kinds and seven values
		forms, tvals, kinds := c14TripleForms, c14TripleValues, c14Kinds
		if !r.Thorough() {
			tvals = []string{"-1", "1", "2", "0.5"}
			kinds = []string{"json.Number", "int", "uint8", "float32", "float64", "decimal128"}
		}
		r.Bound("triple_forms", forms)
		r.Bound("triple_values", tvals)
		r.Bound("triple_kinds", kinds)
		for _, e := range forms {
			for _, vx := range tvals {
				for _, vy := range tvals {
					n++
					if !r.Mine(n) {
						continue
					}
					if r.Expired() {
						return
					}
					r.Add("states", 1)
					for _, vz := range tvals {
						for _, kx := range kinds {
							for _, ky := range kinds {
								for _, kz := range kinds {
									r.Begin(map[string]any{"expr": e, "doc": vx + " " + vy + " " + vz + " " + kx + " " + ky + " " + kz})
									if v := c14Triple(r, e, kx, ky, kz, vx, vy, vz); v != nil {
										r.Violate(v)
									}
								}
							}
						}
					}
				}
			}
		}
	}
	// long arrays with ties: ordering functions switch algorithm with the length, and must not switch it with the carrier
	for _, n2 := range []int{12, 13, 14, 16, 24, 40} {
		for pi := range c14TiePatterns {
			for _, ka := range c14Kinds {
				n++
				if !r.Mine(n) {
					continue
				}
				r.Add("states", 1)
				for _, kb := range c14Kinds {
					for _, e := range c14TieExprs {
						r.Begin(map[string]any{"expr": e, "doc": fmt.Sprintf("ties n=%d pattern=%d %s %s", n2, pi, ka, kb)})
						if v := c14Ties(r, e, n2, pi, ka, kb); v != nil {
							r.Violate(v)
						}
					}
				}
			}
		}
	}
	for _, f := range forms {
		for _, vx := range values {
			n++
			if !r.Mine(n) {
				continue
			}
			if r.Expired() {
				return
			}
			r.Add("states", 1)
			ys := values
			if f.Arity == 1 {
				ys = []string{"1"}
			}
			for _, vy := range ys {
				for _, kx := range c14Kinds {
					kys := c14Kinds
					if f.Arity == 1 {
						kys = []string{"json.Number"}
					}
					for _, ky := range kys {
						if kx == "json.Number" && ky == "json.Number" {
							continue
						}
						r.Begin(map[string]any{"expr": f.Expr, "doc": vx + " " + vy + " " + kx + " " + ky})
						if v := c14Check(r, f, kx, ky, vx, vy); v != nil {
							r.Violate(v)
						}
					}
				}
			}
			r.Sample(func() any { return map[string]any{"expr": f.Expr, "x": vx, "kinds": "all 14 (x 14)"} })
		}
	}
}

// tie patterns: key of element i is pattern[i % len]
var c14TiePatterns = [][]string{{"2", "1"}, {"1", "1", "0"}, {"3", "2", "1", "2"}, {"0.5", "0.5", "0.25"}, {"1"}}
var c14TieExprs = []string{"sort_by(@, &k)[*].i", "max_by(@, &k).i", "min_by(@, &k).i", "sort(@[*].k)", "sort_by(@, &k)[*].k", "@[?k == max(@[*].k)] | [0].i", "sort_by(@, &(k * `2`))[*].i"}

// c14Ties: an array of n records whose keys follow a tie pattern, even positions carried by kind ka, odd ones by kb.
func c14Ties(r *core.Run, expr string, n, pattern int, ka, kb string) *core.Violation {
	pat := c14TiePatterns[pattern]
	mk := func(k1, k2 string) ([]any, bool) {
		out := make([]any, n)
		for i := range out {
			kind := k1
			if i%2 == 1 {
				kind = k2
			}
			v, ok := carry(kind, pat[i%len(pat)])
			if !ok {
				return nil, false
			}
			out[i] = map[string]any{"k": v, "i": i}
		}
		return out, true
	}
	d, ok := mk(ka, kb)
	if !ok {
		return nil
	}
	base, _ := mk("json.Number", "json.Number")
	c := prepareImplCached(expr)
	ob, o := c.run(base), c.run(d)
	r.Eval(ob)
	r.Add("evaluations", 1)
	r.Add("transitions", 1)
	if ob.Key() == o.Key() {
		return nil
	}
	return &core.Violation{Sig: "C14/ties " + expr + "/" + c14KindClass(ka) + "," + c14KindClass(kb), Desc: fmt.Sprintf("Search(%q) on %d records with keys %v carried by %s (even positions) and %s (odd positions)", expr, n, pat, ka, kb),
		Point:    map[string]any{"form": "ties", "expr": expr, "n": fmt.Sprint(n), "pattern": fmt.Sprint(pattern), "kx": ka, "ky": kb, "doc": fmt.Sprintf("%d records, keys %v, carried by %s/%s", n, pat, ka, kb)},
		Expected: "the json.Number outcome: " + ob.Short(), Actual: o.Short()}
}

func c14Judge(r *core.Run, phase string, pt map[string]any) *core.Violation {
	if pstr(pt, "form") == "ties" {
		var n, p int
		fmt.Sscan(pstr(pt, "n"), &n)
		fmt.Sscan(pstr(pt, "pattern"), &p)
		return c14Ties(r, pstr(pt, "expr"), n, p, pstr(pt, "kx"), pstr(pt, "ky"))
	}
	if pstr(pt, "form") == "triple" {
		return c14Triple(r, pstr(pt, "expr"), pstr(pt, "kx"), pstr(pt, "ky"), pstr(pt, "kz"), pstr(pt, "vx"), pstr(pt, "vy"), pstr(pt, "vz"))
	}
	for _, f := range c14Forms() {
		if f.Name == pstr(pt, "form") {
			return c14Check(r, f, pstr(pt, "kx"), pstr(pt, "ky"), pstr(pt, "vx"), pstr(pt, "vy"))
		}
	}
	return nil
}
