package props

import (
	"encoding/json"
	"fmt"
	"math"
	"math/big"
	"strings"

	"github.com/woodsbury/decimal128"
	"github.com/woodsbury/jmespath/internal/verifmc/core"
)

// C14 — results do not depend on which Go type carries a number (form G over
// configurations; metamorphic: every configuration against the json.Number one).

var c14Kinds = []string{"json.Number", "int", "int8", "int16", "int32", "int64", "uint", "uint8", "uint16", "uint32", "uint64", "float32", "float64", "decimal128"}

var c14Values = []string{"-7", "-2", "-1", "0", "1", "2", "3", "8", "0.5", "1.5", "-3.5", "255", "2147483648", "2.0", "3e0", "20e-1", "-0.0",
	// beyond the 53-bit mantissa and beyond int64: only for forms that compare or order (no arithmetic)
	"9007199254740992", "9007199254740993", "9223372036854775807", "9223372036854775808", "18446744073709551615", "-9223372036854775808"}

// carry builds the Go value of the given kind holding the number, if it can.
func carry(kind, text string) (any, bool) {
	r, ok := core.ParseDecimal(text)
	if !ok {
		return nil, false
	}
	isInt := r.IsInt()
	var i int64
	if isInt {
		if !r.Num().IsInt64() {
			// beyond int64: only uint64, uint, the floats (when exact), json.Number and decimal128 can carry it
			switch kind {
			case "uint64", "uint":
				if r.Num().IsUint64() {
					if kind == "uint" {
						return uint(r.Num().Uint64()), true
					}
					return r.Num().Uint64(), true
				}
				return nil, false
			case "json.Number", "decimal128", "float32", "float64":
			default:
				return nil, false
			}
		} else {
			i = r.Num().Int64()
		}
	}
	f, _ := r.Float64()
	inRange := func(lo, hi int64) bool { return isInt && i >= lo && i <= hi }
	switch kind {
	case "json.Number":
		return json.Number(text), true
	case "int":
		return int(i), isInt
	case "int8":
		return int8(i), inRange(math.MinInt8, math.MaxInt8)
	case "int16":
		return int16(i), inRange(math.MinInt16, math.MaxInt16)
	case "int32":
		return int32(i), inRange(math.MinInt32, math.MaxInt32)
	case "int64":
		return i, isInt
	case "uint":
		return uint(i), isInt && i >= 0
	case "uint8":
		return uint8(i), inRange(0, math.MaxUint8)
	case "uint16":
		return uint16(i), inRange(0, math.MaxUint16)
	case "uint32":
		return uint32(i), inRange(0, math.MaxUint32)
	case "uint64":
		return uint64(i), isInt && i >= 0
	case "float32":
		g := float32(f)
		back := new(big.Rat)
		back.SetFloat64(float64(g))
		return g, back.Cmp(r) == 0
	case "float64":
		back := new(big.Rat)
		back.SetFloat64(f)
		return f, back.Cmp(r) == 0
	case "decimal128":
		d, err := decimal128.Parse(text)
		return d, err == nil
	}
	return nil, false
}

type c14Form struct {
	Name  string
	Expr  string
	Arity int // number leaves: 1 or 2
	// Guard decides from the exact values whether every intermediate result is
	// representable in every carrier.
	Guard func(x, y *big.Rat) bool
}

func dyadic(r *big.Rat) bool {
	d := r.Denom()
	return d.BitLen() > 0 && new(big.Int).And(d, new(big.Int).Sub(d, big.NewInt(1))).Sign() == 0 && d.BitLen() < 40
}

func c14Forms() []c14Form {
	var fs []c14Form
	huge := func(r *big.Rat) bool { return new(big.Rat).Abs(r).Cmp(big.NewRat(1<<40, 1)) > 0 }
	always := func(x, y *big.Rat) bool { return !huge(x) && !huge(y) }
	ordering := func(x, y *big.Rat) bool { return true } // comparing and ordering are exact for every carrier
	small := func(x, y *big.Rat) bool {                  // compound forms and size-driving arguments: keep to small magnitudes
		lim := big.NewRat(256, 1)
		return new(big.Rat).Abs(x).Cmp(lim) < 0 && new(big.Rat).Abs(y).Cmp(lim) < 0
	}
	for _, op := range []string{"+", "-", "*", "−", "×"} {
		fs = append(fs, c14Form{"arith " + op, "x " + op + " y", 2, always})
	}
	for _, op := range []string{"/", "÷"} {
		fs = append(fs, c14Form{"arith " + op, "x " + op + " y", 2, func(x, y *big.Rat) bool {
			return y.Sign() == 0 || dyadic(new(big.Rat).Quo(x, y))
		}})
	}
	for _, op := range []string{"//", "%"} {
		fs = append(fs, c14Form{"arith " + op, "x " + op + " y", 2, always})
	}
	for _, op := range []string{"<", "<=", ">", ">=", "==", "!="} {
		fs = append(fs, c14Form{"cmp " + op, "x " + op + " y", 2, ordering})
	}
	for _, e := range []string{"[x] == [y]", "{k: x} == {k: y}", "contains([x, `1`], y)", "contains(l, y)", "max([x, y])", "min([x, y])", "sort([x, y])", "sort([y, x, x])", "max(l)", "min(l)", "sort(l)", "sort(l)[-1] == max(l)",
		"sort_by(o, &k)[*].i", "max_by(o, &k).i", "min_by(o, &k).i", "l[?@ > `1`]", "[x, y][?@ >= `9007199254740993`]", "x == y || x < y || x > y", "type(x)", "x && y", "!x", "not_null(x, y)", "l == [x, y]", "to_array(x)", "x == `9007199254740993`"} {
		fs = append(fs, c14Form{"big " + e, e, 2, ordering})
	}
	for _, e := range []string{"[x] == [y]", "{k: x} == {k: y}", "[x, y] == [y, x]", "contains([x, `1`], y)", "contains(l, y)", "x && y", "x || y", "[x, y][?@ == `1`]",
		"l[?@ > `1`]", "l[?@]", "sum([x, y])", "avg([x, x])", "avg([x, y, x, y])", "max([x, y])", "min([x, y])", "sort([x, y])", "sort([y, x, x])", "max(l)", "min(l)", "sort(l)",
		"sort_by(o, &k)[*].k", "max_by(o, &k).k", "min_by(o, &k).k", "sort_by(o, &k)[*].i", "not_null(x, y)", "not_null(`null`, y)", "l == [x, y]", "zip(l, l)", "reverse(l)", "l[::-1]",
		"to_array(x)", "[x, y] | [0] + [1]", "merge({a: x}, {b: y})", "x + y * x", "(x - y) * (x + y)", "-x + y", "abs(x) + abs(y)", "[x, y][?@ >= `0`] | length(@)"} {
		g := always
		if strings.ContainsAny(e, "*+") {
			g = small // sums and products of 2^31 leave the 53-bit mantissa of the float carriers
		}
		fs = append(fs, c14Form{e, e, 2, g})
	}
	for _, e := range []string{"-x", "+x", "−x", "!x", "type(x)", "abs(x)", "ceil(x)", "floor(x)", "to_number(x)", "to_array(x)", "not_null(x)", "[x][?@]", "x == `1`", "x < `1.5`", "x >= `-1`",
		"[x] == `[2]`", "x == x", "x != x", "sum([x])", "avg([x])", "max([x])", "sort([x])", "type([x][0])", "x + `1`", "`0.5` * x", "-(-x)", "x - x", "contains(`[1, 2, 0.5]`, x)",
		"pad_left('a', x)", "pad_right('a', x, '-')", "split('a,b,c,d', ',', x)", "replace('aaaa', 'a', 'b', x)", "find_first('abcabc', 'b', x)", "find_last('abcabc', 'b', `0`, x)",
		"x && 'yes'", "x || 'no'", "[x, 'a'][?@ == `2`]", "{v: x}.v", "let $n = x in [$n, $n + `1`]", "map(&(@ + `1`), [x])", "length(to_array(x))"} {
		g := always
		if strings.Contains(e, "pad_") || strings.Contains(e, "split(") || strings.Contains(e, "replace(") || strings.Contains(e, "find_") {
			g = small // a pad width of 2^31 legitimately produces a 2 GiB string
		}
		fs = append(fs, c14Form{e, e, 1, g})
	}
	// to_string only for integers (the spelling of fractions is not pinned across carriers)
	// and below 2^24: encoding/json prints a float32 with the shortest text that round-trips as float32 (2^31 -> 2147483600)
	fs = append(fs, c14Form{"to_string(x)", "to_string(x)", 1, func(x, y *big.Rat) bool { return x.IsInt() && small(x, y) }})
	fs = append(fs, c14Form{"to_string([x])", "to_string([x])", 1, func(x, y *big.Rat) bool { return x.IsInt() && small(x, y) }})
	return fs
}

func init() {
	core.Register(&core.Check{
		ID:    "C14",
		Title: "results do not depend on which Go type carries a number",
		Rule: "for every expression form of the menu (all binary arithmetic operators and comparators, equality inside containers, truthiness, type, the numeric and ordering functions, unary signs, every integer-argument position) and every value (pair) of the value alphabet, " +
			"the number leaves of the document are carried by every Go numeric kind able to hold the value exactly - all 14 single kinds and all 14x14 ordered pairs of kinds for two-leaf forms - and the observation must equal, by value, the observation of the all-json.Number configuration; " +
			"non-trivial = a non-null, non-empty, non-error baseline outcome; distinct_nontrivial counts distinct such outcomes",
		Phases: []core.Phase{{Name: "carriers", Build: "instr", Fn: c14Run}},
		Judge:  c14Judge,
		Assumptions: []string{
			"values are dyadic rationals exactly representable in every kind used; divisions whose exact quotient is not dyadic are excluded (binary and decimal carriers legitimately round differently)",
			"to_string is compared for integers only",
		},
	})
}

func c14Doc(kx, ky, vx, vy string) (any, bool) {
	x, ok1 := carry(kx, vx)
	y, ok2 := carry(ky, vy)
	if !ok1 || !ok2 {
		return nil, false
	}
	one, _ := carry(ky, "1")
	if ky == "float32" || ky == "float64" {
		one, _ = carry(ky, "1")
	}
	return map[string]any{
		"x": x, "y": y,
		"l": []any{x, y},
		"o": []any{map[string]any{"k": x, "i": "first"}, map[string]any{"k": y, "i": "second"}, map[string]any{"k": one, "i": "third"}},
	}, true
}

func c14Check(r *core.Run, f c14Form, kx, ky, vx, vy string) *core.Violation {
	rx, _ := core.ParseDecimal(vx)
	ry, _ := core.ParseDecimal(vy)
	if strings.HasPrefix(f.Name, "to_string") && strings.ContainsAny(vx, ".eE") {
		r.AbstainOn("to_string of an integer spelled with a fraction or an exponent: the spelling is the carrier's")
		return nil
	}
	if !f.Guard(rx, ry) {
		r.AbstainOn("an intermediate value is not exactly representable in every carrier")
		return nil
	}
	d, ok := c14Doc(kx, ky, vx, vy)
	if !ok {
		return nil
	}
	base, _ := c14Doc("json.Number", "json.Number", vx, vy)
	c := prepareImplCached(f.Expr)
	ob := c.run(base)
	o := c.run(d)
	r.Eval(ob)
	r.Add("evaluations", 1)
	r.Add("transitions", 1)
	if ob.Key() == o.Key() {
		return nil
	}
	kinds := kx
	if f.Arity == 2 {
		kinds = kx + "," + ky
	}
	return &core.Violation{Sig: "C14/" + f.Name + "/" + c14KindClass(kx) + "," + c14KindClass(ky),
		Desc:     fmt.Sprintf("Search(%q) with x=%s as %s, y=%s as %s", f.Expr, vx, kx, vy, ky),
		Point:    map[string]any{"form": f.Name, "expr": f.Expr, "kx": kx, "ky": ky, "vx": vx, "vy": vy, "doc": fmt.Sprintf(`{"x":%s,"y":%s} carried by %s`, vx, vy, kinds)},
		Expected: "the json.Number outcome: " + ob.Short(), Actual: o.Short()}
}

func c14KindClass(k string) string {
	switch {
	case strings.HasPrefix(k, "float"):
		return "float"
	case strings.HasPrefix(k, "uint"):
		return "uint"
	case strings.HasPrefix(k, "int"):
		return "int"
	}
	return k
}

var implCache = map[string]*compiled{}

func prepareImplCached(text string) *compiled {
	if c, ok := implCache[text]; ok {
		return c
	}
	c := prepareImpl(text)
	implCache[text] = c
	return c
}

func c14Run(r *core.Run) {
	forms := c14Forms()
	r.Bound("forms", len(forms))
	r.Bound("kinds", c14Kinds)
	r.Bound("values", c14Values)
	n := 0
	for _, f := range forms {
		for _, vx := range c14Values {
			n++
			if !r.Mine(n) {
				continue
			}
			if r.Expired() {
				return
			}
			r.Add("states", 1)
			ys := c14Values
			if f.Arity == 1 {
				ys = []string{"1"}
			}
			for _, vy := range ys {
				for _, kx := range c14Kinds {
					kys := c14Kinds
					if f.Arity == 1 {
						kys = []string{"json.Number"}
					}
					for _, ky := range kys {
						if kx == "json.Number" && ky == "json.Number" {
							continue
						}
						r.Begin(map[string]any{"expr": f.Expr, "doc": vx + " " + vy + " " + kx + " " + ky})
						if v := c14Check(r, f, kx, ky, vx, vy); v != nil {
							r.Violate(v)
						}
					}
				}
			}
			r.Sample(func() any { return map[string]any{"expr": f.Expr, "x": vx, "kinds": "all 14 (x 14)"} })
		}
	}
}

func c14Judge(r *core.Run, phase string, pt map[string]any) *core.Violation {
	for _, f := range c14Forms() {
		if f.Name == pstr(pt, "form") {
			return c14Check(r, f, pstr(pt, "kx"), pstr(pt, "ky"), pstr(pt, "vx"), pstr(pt, "vy"))
		}
	}
	return nil
}
