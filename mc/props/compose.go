package props

import (
	"fmt"
	"strings"

	"github.com/woodsbury/jmespath/internal/verifmc/core"
	"github.com/woodsbury/jmespath/internal/verifmc/ref"
)

// The composition closure: every construct of the language once, as a template with holes X (first operand) and Y
// (second operand), and every way of putting one template into a hole of another (and, in the thorough tier, a third
// into the second). The per-property menus enumerate chains and argument vectors; this enumerates *pairs of
// constructs* - a function under a projection, an index after a call, an operator inside a multi-select inside a
// filter - which is where fast paths and rewrites keyed on the shape of the syntax tree go wrong.
//
// kind: 0 = core language (C01), 1 = arithmetic (C05), 2 = built-in function (C02). An expression is attributed to the
// highest kind among its templates.

type cTmpl struct {
	Text string
	Kind int
}

var composeTemplates = []cTmpl{
	// selectors and projections applied to X
	{"X.a", 0}, {"X.b", 0}, {"X.\"a\"", 0}, {"X[0]", 0}, {"X[1]", 0}, {"X[-1]", 0}, {"X[2]", 0}, {"X[1:]", 0}, {"X[:1]", 0}, {"X[:-1]", 0}, {"X[::-1]", 0}, {"X[::2]", 0}, {"X[1:3]", 0},
	{"X[*]", 0}, {"X.*", 0}, {"X[]", 0}, {"X[?a]", 0}, {"X[?@]", 0}, {"X[?!@]", 0}, {"X[?a == `1`]", 0}, {"X[?@ > `1`]", 0}, {"X[?b == 'x' || a]", 0},
	{"X.[a]", 0}, {"X.[a, b]", 0}, {"X.{k: a}", 0}, {"X.{k: a, l: b}", 0}, {"X.[@]", 0}, {"X.{k: @}", 0},
	{"!X", 0}, {"(X)", 0}, {"[X]", 0}, {"{k: X}", 0}, {"[X, Y]", 0}, {"{k: X, l: Y}", 0}, {"[Y, X][0]", 0},
	{"X | [0]", 0}, {"X | [-1]", 0}, {"X | [1]", 0}, {"X | @", 0}, {"X | a", 0}, {"X | [*]", 0}, {"X | []", 0}, {"X | *", 0}, {"X | [1:]", 0}, {"X | [?@]", 0}, {"X | [a]", 0}, {"X | {k: a}", 0}, {"X | Y", 0},
	{"X[*].a", 0}, {"X[*][0]", 0}, {"X[*].[a]", 0}, {"X[].a", 0}, {"X.*.a", 0}, {"X[?a].b", 0}, {"X[1:].a", 0}, {"X[*].Y", 0}, {"X[?Y]", 0}, {"X[?a == Y]", 0}, {"X[?Y].a", 0}, {"X.[Y]", 0}, {"X.{k: Y}", 0}, {"X[*].[Y, @]", 0},
	{"X || Y", 0}, {"X && Y", 0}, {"X == Y", 0}, {"X != Y", 0}, {"X < Y", 0}, {"X <= Y", 0}, {"X > Y", 0}, {"X >= Y", 0},
	{"let $v = X in $v", 0}, {"let $v = X in Y", 0}, {"let $v = X in [$v, Y]", 0}, {"let $v = Y in X | $v", 0}, {"let $v = X in Y[?@ == $v]", 0}, {"let $v = X in Y[*].[$v, @]", 0}, {"let $v = X, $w = Y in [$w, $v]", 0},
	{"$.X", 0}, {"@.X", 0}, {"[$, X]", 0},
	// arithmetic
	{"-X", 1}, {"+X", 1}, {"X + Y", 1}, {"X - Y", 1}, {"X * Y", 1}, {"X / Y", 1}, {"X // Y", 1}, {"X % Y", 1}, {"X + `1`", 1}, {"`2` * X", 1}, {"X[*].[@ + `1`]", 1}, {"X[?@ + `1` > Y]", 1},
	// built-in functions
	{"abs(X)", 2}, {"avg(X)", 2}, {"ceil(X)", 2}, {"contains(X, Y)", 2}, {"ends_with(X, Y)", 2}, {"find_first(X, Y)", 2}, {"find_first(X, Y, `1`)", 2}, {"find_first(X, Y, `0`, `2`)", 2}, {"find_last(X, Y)", 2}, {"find_last(X, Y, `1`)", 2},
	{"floor(X)", 2}, {"from_items(X)", 2}, {"group_by(X, &Y)", 2}, {"group_by(X, &a)", 2}, {"items(X)", 2}, {"join(X, Y)", 2}, {"join(', ', X)", 2}, {"keys(X)", 2}, {"length(X)", 2}, {"lower(X)", 2},
	{"map(&X, Y)", 2}, {"map(&a, X)", 2}, {"map(&[@, X], Y)", 2}, {"max(X)", 2}, {"max_by(X, &Y)", 2}, {"max_by(X, &a)", 2}, {"merge(X, Y)", 2}, {"merge(X)", 2}, {"min(X)", 2}, {"min_by(X, &Y)", 2}, {"min_by(X, &a)", 2},
	{"not_null(X, Y)", 2}, {"not_null(X)", 2}, {"pad_left(X, `5`)", 2}, {"pad_left(X, `5`, Y)", 2}, {"pad_left(X, Y)", 2}, {"pad_right(X, `5`)", 2}, {"pad_right(X, `5`, Y)", 2}, {"replace(X, Y, 'z')", 2}, {"replace(X, 'l', Y)", 2}, {"replace(X, Y, 'z', `1`)", 2},
	{"reverse(X)", 2}, {"sort(X)", 2}, {"sort_by(X, &Y)", 2}, {"sort_by(X, &a)", 2}, {"sort_by(X, &@)", 2}, {"split(X, Y)", 2}, {"split(X, Y, `1`)", 2}, {"split(X, '')", 2}, {"starts_with(X, Y)", 2}, {"sum(X)", 2},
	{"to_array(X)", 2}, {"to_number(X)", 2}, {"to_string(X)", 2}, {"trim(X)", 2}, {"trim(X, Y)", 2}, {"trim_left(X)", 2}, {"trim_left(X, Y)", 2}, {"trim_right(X)", 2}, {"trim_right(X, Y)", 2}, {"type(X)", 2}, {"upper(X)", 2}, {"values(X)", 2},
	{"zip(X, Y)", 2}, {"zip(X)", 2}, {"X.length(@)", 2}, {"X[*].length(@)", 2}, {"X[*].type(@)", 2}, {"X.keys(@)", 2}, {"X[?type(@) == 'number']", 2}, {"X[?length(@) > `1`]", 2}, {"X[?contains(@, Y)]", 2}, {"X | length(@)", 2}, {"X | sort(@)", 2},
	// a function of the element as the right-hand side of every projection kind (the function sees null elements; only null results are dropped)
	{"X[].type(@)", 2}, {"X[].to_string(@)", 2}, {"X[].not_null(@, 'd')", 2}, {"X.*.type(@)", 2}, {"X.*.not_null(@, Y)", 2}, {"X[?!@].type(@)", 2}, {"X[?@ == `null`].type(@)", 2}, {"X[1:].type(@)", 2}, {"X[::-1].not_null(@, 'd')", 2},
	{"X[*].not_null(@, Y)", 2}, {"X[*].to_string(@)", 2}, {"X[*][].type(@)", 2}, {"X[].not_null(a, 'd')", 2}, {"X | [].type(@)", 2}, {"X[*].[type(@)]", 2}, {"X[].a.type(@)", 2}, {"X[*].a[].type(@)", 2},
	{"length(X) == Y", 2}, {"sort_by(X, &Y)[0]", 2}, {"sort_by(X, &a)[-1]", 2}, {"sort(X)[0]", 2}, {"reverse(X)[0]", 2}, {"keys(X)[0]", 2}, {"values(X)[*].a", 2}, {"max_by(X, &a).a", 2}, {"to_array(X)[0]", 2}, {"map(&a, X)[0]", 2}, {"not_null(X, Y).a", 2},
}

// atom pairs for the holes of the inner template, and for a template on its own
var composeAtoms = [][2]string{{"a", "b"}, {"b", "a"}, {"@", "a"}, {"a", "`1`"}, {"c", "'l'"}, {"d", "c"}}

// documents: the fields a, b, c, d carry every type in turn
var composeDocTexts = []string{
	`{"a":[{"a":1,"b":"x"},{"a":2,"b":"y"},{"b":null,"a":null},{"a":3}],"b":[3,1,2],"c":"hello","d":{"a":[1,2],"b":{"a":"z"}}}`,
	`{"a":"hello","b":"l","c":[["k",1],["m",2]],"d":["b","a","c","a"]}`,
	`{"a":[1,2,3,4],"b":2,"c":"a,b,,c","d":","}`,
	`{"a":{"a":[1],"b":{"a":2},"c":null},"b":"a","c":[[1,2],[3],[],null,[null,4]],"d":[[1,"x"],[2,"y"]]}`,
	`{"a":[["k",1],["m",2],["k",3]],"b":[["a","b"]],"c":"  padded  ","d":" "}`,
	`{"a":["b","a","c"],"b":",","c":[{"a":"x","b":2},{"a":"x","b":1},{"a":"w","b":3}],"d":"x"}`,
	`{"a":[[1,2],[3],[]],"b":[null,1],"c":"héllo wörld","d":"ö"}`,
	`{"a":null,"b":true,"c":false,"d":0}`,
	`{"a":1.5,"b":-2,"c":"1.5","d":[1.5,-2,0]}`,
	`{"a":[{"a":[{"a":1},{"a":2}],"b":[1]},{"a":[{"a":3}],"b":[]}],"b":1,"c":{"k":1,"l":[1],"m":null},"d":[true,false,null,0,"",[],{}]}`,
	`{"a":[3,1,2,1],"b":[1,1],"c":["3","1","2"],"d":[[3,"c"],[1,"a"]]}`,
	`{"a":"","b":"","c":[],"d":{}}`,
	`{"a":{"k":{"a":1,"b":2},"l":{"a":null},"m":{"a":[1]}},"b":{"a":1},"c":"k","d":["k","m"]}`,
	`[1,2,3]`, `"s"`, `null`, `{}`, `[]`, `[{"a":1,"b":[1]},{"a":null},{"a":[2,3],"b":"s"},null,"s",[{"a":4}]]`, `{"a":[0,1],"b":0}`, `[[1,[2]],[[3]],4,[]]`, `true`, `7`,
	`{"a":[{"a":"b","b":"a"},{"a":"a","b":"b"}],"b":"a","c":"abcabc","d":"bc"}`,
	`{"a":[1,"a",null,[1],{"a":1}],"b":[[1],[2]],"c":["a",1],"d":1}`,
}

func composeFill(t, x, y string) string {
	return strings.ReplaceAll(strings.ReplaceAll(t, "X", x), "Y", y)
}

type composeExpr struct {
	Text  string
	Shape string
	Kind  int
}

func maxInt(a, b int) int {
	if a > b {
		return a
	}
	return b
}

// composeExpressions enumerates the closure. kinds selects which expressions are wanted (by their attributed kind).
func composeExpressions(thorough bool, kind int) []composeExpr {
	var out []composeExpr
	seen := map[string]bool{}
	add := func(text, shape string, k int) {
		if k != kind || seen[text] {
			return
		}
		seen[text] = true
		out = append(out, composeExpr{text, shape, k})
	}
	hasY := func(t string) bool { return strings.Contains(t, "Y") }
	inner := func(f func(text, shape string, k int)) {
		for _, t := range composeTemplates {
			for ai, at := range composeAtoms {
				if ai >= 3 && !thorough && !hasY(t.Text) {
					continue
				}
				f(composeFill(t.Text, at[0], at[1]), t.Text, t.Kind)
			}
		}
	}
	// singles
	inner(func(text, shape string, k int) { add(text, shape, k) })
	// pairs: the inner expression in each hole of the outer template, bare and parenthesised; the other hole holds b or a
	inner(func(in, inShape string, ik int) {
		for _, o := range composeTemplates {
			k := maxInt(ik, o.Kind)
			if k != kind {
				continue
			}
			sh := o.Text + " <- " + inShape
			add(composeFill(o.Text, in, "b"), sh, k)
			add(composeFill(o.Text, "("+in+")", "b"), sh+" (paren)", k)
			if hasY(o.Text) {
				add(composeFill(o.Text, "a", in), sh+" [Y]", k)
				add(composeFill(o.Text, "c", "("+in+")"), sh+" [Y] (paren)", k)
			}
		}
	})
	if !thorough {
		return out
	}
	// triples over the templates with one hole: outer(middle(inner(atom)))
	var ones []cTmpl
	for _, t := range composeTemplates {
		if !hasY(t.Text) {
			ones = append(ones, t)
		}
	}
	for _, t1 := range ones {
		for _, t2 := range ones {
			for _, t3 := range ones {
				k := maxInt(t1.Kind, maxInt(t2.Kind, t3.Kind))
				if k != kind {
					continue
				}
				for _, at := range []string{"a", "@"} {
					add(composeFill(t1.Text, composeFill(t2.Text, composeFill(t3.Text, at, ""), ""), ""), t1.Text+" <- "+t2.Text+" <- "+t3.Text, k)
				}
			}
		}
	}
	return out
}

var composeDocsCache []doc

func composeDocs() []doc {
	if composeDocsCache == nil {
		for _, t := range composeDocTexts {
			composeDocsCache = append(composeDocsCache, mkDoc(t))
		}
	}
	return composeDocsCache
}

var composeKindNames = []string{"core", "arithmetic", "functions"}

// composeRun is the phase body shared by C01 (kind 0), C05 (kind 1) and C02 (kind 2).
func composeRun(id string, kind int) func(r *core.Run) {
	return func(r *core.Run) {
		if bad := refSelfCheck(); bad != "" {
			r.InternalError(bad)
			return
		}
		exprs := composeExpressions(r.Thorough(), kind)
		docs := composeDocs()
		r.Bound("compose_templates", len(composeTemplates))
		r.Bound("compose_expressions_"+composeKindNames[kind], len(exprs))
		r.Bound("compose_documents", len(docs))
		for i, e := range exprs {
			if !r.Mine(i) {
				continue
			}
			if r.Expired() {
				break
			}
			c := prepare(e.Text)
			if c.Prose.Syntax {
				// not a member of the grammar (a template that needs an identifier got something else): C04's subject
				r.Add("compose_not_in_grammar", 1)
				continue
			}
			r.Add("states", 1)
			for di, d := range docs {
				r.Begin(map[string]any{"expr": e.Text, "doc": d.Text})
				if v := composePoint(r, id, c, e.Shape, d); v != nil {
					r.Violate(v)
				}
				if di == 0 && i%997 == 0 {
					r.Sample(func() any { return map[string]any{"expr": e.Text, "doc": d.Text} })
				}
			}
		}
	}
}

func composePoint(r *core.Run, id string, c *compiled, shape string, d doc) *core.Violation {
	want := c.refEval(d.Norm)
	o := c.run(d.Raw)
	r.Eval(o)
	r.Add("transitions", 1)
	if want.U != "" {
		r.AbstainOn(want.U)
		r.Add("oracle_abstained", 1)
		return nil
	}
	r.Add("oracle_determinate", 1)
	k := ref.Diff(o, want)
	if k == "" {
		return nil
	}
	return &core.Violation{Sig: id + "/compose/" + k + "/" + shape, Desc: fmt.Sprintf("Search(%q, %s)", c.Text, d.Text),
		Point: map[string]any{"expr": c.Text, "doc": d.Text, "shape": shape}, Expected: want.String(), Actual: o.Short()}
}

func composeJudge(r *core.Run, id string, pt map[string]any) *core.Violation {
	return composePoint(r, id, prepare(pstr(pt, "expr")), pstr(pt, "shape"), mkDoc(pstr(pt, "doc")))
}
