package props

import (
	"encoding/json"
	"sort"
	"strings"

	"github.com/woodsbury/jmespath"
	"github.com/woodsbury/jmespath/internal/verifmc/core"
	"github.com/woodsbury/jmespath/internal/verifmc/ref"
)

// doc is one input document in its raw (as handed to the library) and
// normalised (as handed to the reference) form.
type doc struct {
	Text string
	Raw  any
	Norm any
}

func mkDoc(text string) doc {
	raw := core.JSONDoc(text)
	return doc{Text: text, Raw: raw, Norm: core.Norm(raw)}
}

// mkDocRaw wraps a raw Go value (JSON model) as a document.
func mkDocRaw(raw any) doc {
	return doc{Text: core.ToJSONText(raw), Raw: raw, Norm: core.Norm(raw)}
}

// jsonDocs enumerates every JSON value of nesting depth <= depth over the
// given atoms, object keys (all subsets) and array lengths <= maxLen, as JSON
// text, simplest first.
func jsonDocs(atoms []string, keys []string, maxLen, depth int) []string {
	level := append([]string{}, atoms...)
	for d := 1; d < depth; d++ {
		next := append([]string{}, atoms...)
		// arrays
		var tuples func(n int, prefix []string)
		tuples = func(n int, prefix []string) {
			if n == 0 {
				next = append(next, "["+strings.Join(prefix, ",")+"]")
				return
			}
			for _, v := range level {
				tuples(n-1, append(prefix[:len(prefix):len(prefix)], v))
			}
		}
		for n := 0; n <= maxLen; n++ {
			tuples(n, nil)
		}
		// objects: every subset of keys, every assignment
		for mask := 0; mask < 1<<len(keys); mask++ {
			var ks []string
			for i, k := range keys {
				if mask&(1<<i) != 0 {
					ks = append(ks, k)
				}
			}
			var assign func(i int, prefix []string)
			assign = func(i int, prefix []string) {
				if i == len(ks) {
					next = append(next, "{"+strings.Join(prefix, ",")+"}")
					return
				}
				for _, v := range level {
					kb, _ := json.Marshal(ks[i])
					assign(i+1, append(prefix[:len(prefix):len(prefix)], string(kb)+":"+v))
				}
			}
			assign(0, nil)
		}
		level = next
	}
	sort.SliceStable(level, func(i, j int) bool { return len(level[i]) < len(level[j]) })
	return level
}

// menuItem is one symbol of an expression alphabet.
type menuItem struct {
	Name string
	Text string
}

// compiled is an expression prepared on both sides.
type compiled struct {
	Text    string
	Expr    *jmespath.Expression
	CompObs core.Obs
	Prose   ref.ParseResult
	RefImpl ref.ParseResult
	same    bool
}

func prepare(text string) *compiled {
	c := &compiled{Text: text}
	c.Expr, c.CompObs = core.Compile(text)
	c.Prose = ref.Parse(text, ref.Prose)
	c.RefImpl = ref.Parse(text, ref.RefImpl)
	c.same = c.Prose.Syntax == c.RefImpl.Syntax && c.Prose.AST != nil && c.RefImpl.AST != nil && c.Prose.AST.String() == c.RefImpl.AST.String()
	return c
}

// refEval is ref.Eval on prepared parses.
func (c *compiled) refEval(d any) ref.Res {
	return ref.EvalBoth(c.Prose, c.RefImpl, c.same, d)
}

// run executes the implementation: the compiled expression when compilation
// succeeded, else the compile failure itself.
func (c *compiled) run(raw any) core.Obs {
	if c.Expr == nil {
		return c.CompObs
	}
	return core.ExprSearch(c.Expr, raw)
}
