package props

import (
	"encoding/json"
	"fmt"
	"sort"
	"strings"

	"github.com/woodsbury/jmespath/internal/verifmc/core"
)

// C13 — sort, sort_by, min/max, min_by/max_by order by value, stably.
// Oracle computed in the harness: the unique stable order; permutation of
// identities; extremal elements; invalid-type for mixed arrays; input untouched.

// key alphabets: a key is an index into one of these
var c13NumKeys = []string{"0", "1", "2", "-1", "10"}
var c13StrKeys = []string{`"a"`, `""`, `"b"`, `"B"`, `"é"`}
var c13NumSpell = []string{"1", "1.0", "1e0", "2", "10e-1", "2.0", "0", "-0", "-0.0", "0e3"}
var c13BigKeys = []string{"9007199254740992", "9007199254740993", "9007199254740994", "12345678901234567890", "12345678901234567891", "0.1", "0.10000000000000001", "1e30", "-9007199254740993"}

// strings that are prefixes of each other, also with trailing U+0000 and with a first difference after 8 and 16 bytes
var c13PrefixKeys = []string{`"ab"`, `"ab\u0000"`, `"ab\u0000\u0000"`, `"a"`, `"b"`, `"abcdefgh"`, `"abcdefgh\u0000"`, `"abcdefghi"`, `"abcdefgha"`, `"abcdefghabcdefghx"`, `"abcdefghabcdefghy"`, `""`}
var c13Spell = []string{"1", "1.0", "1e0", "2", `"a"`, `"b"`, `"é"`, `"😀"`, "null", "[1]"}

// an op is a function, optionally followed by "/" and the expression that delivers the array (default: the document itself)
var c13Ops = []string{"sort_by", "min_by", "max_by", "sort", "min", "max", "sort_by_self",
	"sort_by/x[*]", "sort/x[*]", "sort_by_self/x[*]", "max_by/x[*]", "min/x[*]", "sort_by/(x)", "sort/x || z", "sort_by/x[:]", "sort/x[?`true`]", "sort_by/[x][0]", "sort/not_null(y, x)", "sort_by_nested", "sort_by[-1]", "sort_by[0]", "sort_by[1]", "sort[-1]", "sort_by_paren[-1]", "reverse_sort_by", "reverse_sort", "reverse_sort_by/x[*]", "reverse_sort_by/(x)"}

func init() {
	core.Register(&core.Check{
		ID:    "C13",
		Title: "sort, sort_by, min/max, min_by/max_by order by value, stably",
		Rule: "every array of length <= 16 over two keys, <= 7 over three keys, <= 5 over the ten-value spelling alphabet (numbers equal in value but spelled differently, strings across the Unicode range, null, nested array), and the complete periodic / " +
			"single-inversion / descending / constant key families for lengths 17..64, each with number and with string keys, goes through sort, sort_by, min, max, min_by and max_by; the harness computes the unique stable order and the extremal keys; " +
			"elements carry their original index so that permutation and stability are decided exactly; non-trivial = a call on an array with at least two different keys; distinct_nontrivial counts distinct key sequences among them",
		Phases: []core.Phase{{Name: "order", Build: "instr", Fn: c13Run}},
		Judge:  c13Judge,
		Assumptions: []string{
			"strings are ordered by code point (= byte order of their UTF-8 encoding), numbers by exact value",
			"among several extremal elements min_by/max_by may return any; among equal-valued numbers of different spelling sort may use any order",
		},
	})
}

type c13Case struct {
	Kind string // "num", "str", "spell"
	Keys []int
}

func (c c13Case) keyText(i int) string {
	switch c.Kind {
	case "num":
		return c13NumKeys[c.Keys[i]]
	case "str":
		return c13StrKeys[c.Keys[i]]
	case "big":
		return c13BigKeys[c.Keys[i]]
	case "numspell":
		return c13NumSpell[c.Keys[i]]
	case "prefix":
		return c13PrefixKeys[c.Keys[i]]
	}
	return c13Spell[c.Keys[i]]
}

func (c c13Case) keysString() string {
	parts := make([]string, len(c.Keys))
	for i := range c.Keys {
		parts[i] = fmt.Sprint(c.Keys[i])
	}
	return strings.Join(parts, ",")
}

// build returns the array of tagged objects (for the *_by functions), the array
// of bare values (for sort/min/max), both with spare capacity and sentinels.
func (c c13Case) build() (objs []any, vals []any) {
	n := len(c.Keys)
	objs = make([]any, n, n+3)
	vals = make([]any, n, n+3)
	for i := range c.Keys {
		var k any
		d := json.NewDecoder(strings.NewReader(c.keyText(i)))
		d.UseNumber()
		d.Decode(&k)
		objs[i] = map[string]any{"k": k, "i": json.Number(fmt.Sprint(i))}
		vals[i] = k
	}
	for j := 0; j < 3; j++ {
		objs[:n+3][n+j] = "sentinel"
		vals[:n+3][n+j] = "sentinel"
	}
	return objs, vals
}

// keyClass: 0 number, 1 string, 2 other
func c13Class(v any) int {
	switch v.(type) {
	case *core.Num:
		return 0
	case string:
		return 1
	}
	return 2
}

func c13Less(a, b any) bool {
	switch x := a.(type) {
	case *core.Num:
		return x.R.Cmp(b.(*core.Num).R) < 0
	case string:
		return x < b.(string)
	}
	return false
}

func c13Check(r *core.Run, c c13Case, op string) *core.Violation {
	objs, vals := c.build()
	n := len(c.Keys)
	keys := make([]any, n)
	for i, v := range vals {
		keys[i] = core.Norm(v)
	}
	// classify
	uniform := true
	for _, k := range keys {
		if c13Class(k) == 2 || c13Class(k) != c13Class(keys[0]) {
			uniform = false
		}
	}
	var expr string
	var input []any
	full := op
	route := "@"
	if i := strings.Index(op, "/"); i >= 0 {
		op, route = full[:i], full[i+1:]
	}
	index := ""
	if i := strings.Index(op, "["); i >= 0 {
		op, index = op[:i], op[i:]
	}
	paren := strings.HasSuffix(op, "_paren")
	op = strings.TrimSuffix(op, "_paren")
	reversed := strings.HasPrefix(op, "reverse_")
	op = strings.TrimPrefix(op, "reverse_")
	switch op {
	case "sort_by", "min_by", "max_by":
		expr, input = op+"(@, &k)", objs
	case "sort_by_self":
		expr, input = "sort_by(@, &@)", vals
	case "sort_by_nested":
		// the key is computed by another sort_by: each element carries an array m whose smallest s is the element's key
		for i, o := range objs[:n] {
			m := o.(map[string]any)
			m["m"] = []any{map[string]any{"s": m["k"]}, map[string]any{"s": m["k"]}}
			objs[i] = m
		}
		expr, input = "sort_by(@, &sort_by(m, &s)[0].s)", objs
	default:
		expr, input = op+"(@)", vals
	}
	var document any = input
	if route != "@" {
		if strings.Contains(route, "[") && route != "[x][0]" {
			for _, v := range vals {
				if v == nil {
					return nil // a projection omits nulls: not the same array
				}
			}
		}
		expr = strings.Replace(expr, "@", route, 1)
		document = map[string]any{"x": input, "z": input}
	}
	if index != "" {
		// an index straight after the call selects from the sorted array: [-1] is the LAST of the stable order
		if paren {
			expr = "(" + expr + ")"
		}
		expr += index
	}
	if reversed {
		expr = "reverse(" + expr + ")" // the usual descending sort: the exact reverse of the stable order, input untouched
	}
	snapshot := core.Canon(core.Norm(input[:n+3]))
	o := core.Search(expr, document)
	r.Eval(o)
	r.Add("transitions", 1)
	mk := func(kind, exp string) *core.Violation {
		return &core.Violation{Sig: fmt.Sprintf("C13/%s/%s/%s/len-%s", kind, full, c.Kind, lenClass(n)), Desc: fmt.Sprintf("%s on keys [%s] (%s)", expr, c.keysText(), c.Kind),
			Point: map[string]any{"op": full, "kind": c.Kind, "keys": c.keysString(), "expr": expr, "doc": core.ToJSONText(input)}, Expected: exp, Actual: o.Short()}
	}
	if core.Canon(core.Norm(input[:n+3])) != snapshot {
		return mk("input-modified", "the input array (including its spare capacity) untouched")
	}
	if o.Kind == "panic" || o.Kind == "budget" {
		return mk(o.Kind, "a value or an invalid-type error")
	}
	if n > 0 && !uniform {
		if o.Kind != "err" || len(o.Cats) != 1 || o.Cats[0] != "invalid-type" {
			return mk("missing-invalid-type", "error[invalid-type] (keys mix numbers and strings or have another type)")
		}
		return nil
	}
	if o.Kind != "ok" {
		return mk("unexpected-error", "a value")
	}
	// stable order of indices
	idx := make([]int, n)
	for i := range idx {
		idx[i] = i
	}
	sort.SliceStable(idx, func(a, b int) bool { return c13Less(keys[idx[a]], keys[idx[b]]) })
	if index != "" {
		var k int
		fmt.Sscanf(index, "[%d]", &k)
		if k < 0 {
			k += n
		}
		var want any
		if k >= 0 && k < n {
			if op == "sort" {
				want = keys[idx[k]]
			} else {
				want = core.Norm(objs[idx[k]])
			}
		}
		if op == "sort" {
			// equal-valued spellings may come in any order: compare by value
			if !core.EqualFast(o.Val, want) {
				return mk("wrong-element", "the element at "+index+" of the sorted array: "+core.Canon(want))
			}
			return nil
		}
		if !core.EqualFast(o.Val, want) {
			return mk("wrong-element", "the element at "+index+" of the stable order: "+core.Canon(want))
		}
		return nil
	}
	if reversed {
		for i, j := 0, n-1; i < j; i, j = i+1, j-1 {
			idx[i], idx[j] = idx[j], idx[i]
		}
		if op == "sort" {
			got, ok := o.Val.([]any)
			if !ok || len(got) != n {
				return mk("wrong-length", fmt.Sprintf("an array of %d elements", n))
			}
			for i := 1; i < n; i++ {
				if c13Less(got[i-1], got[i]) {
					return mk("unordered", "descending order")
				}
			}
			return nil
		}
	}
	switch op {
	case "sort_by_self":
		// stable by value: the spellings of equal-valued numbers keep their input order
		got, ok := o.Raw.([]any)
		if !ok || len(got) != n {
			return mk("wrong-length", fmt.Sprintf("an array of %d elements", n))
		}
		for i, j := range idx {
			if core.ToJSONText(got[i]) != core.ToJSONText(vals[j]) {
				return mk("unstable-or-unordered", "the stable order of the input values (spellings kept in input order among equal values)")
			}
		}
	case "sort_by", "sort_by_nested":
		want := make([]any, n)
		for i, j := range idx {
			want[i] = core.Norm(objs[j])
		}
		if !core.EqualFast(o.Val, want) {
			got, ok := o.Val.([]any)
			kind := "not-a-permutation-or-unordered"
			if ok && len(got) == n && isPermutation(got, objs) && orderedBy(got, "k") {
				kind = "unstable"
			}
			return mk(kind, "the stable order: "+core.Canon(want))
		}
	case "sort":
		got, ok := o.Val.([]any)
		if !ok || len(got) != n {
			return mk("wrong-length", fmt.Sprintf("an array of %d elements", n))
		}
		for i := 1; i < n; i++ {
			if c13Less(got[i], got[i-1]) {
				return mk("unordered", "ascending order")
			}
		}
		// multiset of raw spellings preserved
		a, b := make([]string, n), make([]string, n)
		for i := range vals {
			a[i], b[i] = core.ToJSONText(vals[i]), core.ToJSONText(o.Raw.([]any)[i])
		}
		sort.Strings(a)
		sort.Strings(b)
		if strings.Join(a, "\x00") != strings.Join(b, "\x00") {
			return mk("not-a-permutation", "a permutation of the input")
		}
	case "min", "max", "min_by", "max_by":
		if n == 0 {
			if o.Val != nil {
				return mk("empty-not-null", "null")
			}
			return nil
		}
		ext := keys[idx[0]]
		if strings.HasPrefix(op, "max") {
			ext = keys[idx[n-1]]
		}
		if op == "min" || op == "max" {
			if !core.EqualFast(o.Val, ext) {
				return mk("not-extremal", "a value equal to "+core.Canon(ext))
			}
			return nil
		}
		m, ok := o.Val.(map[string]any)
		if !ok || !core.EqualFast(m["k"], ext) {
			return mk("not-extremal", "an element whose key equals "+core.Canon(ext))
		}
		// it must be one of the input elements
		in, okI := m["i"].(*core.Num)
		if !okI || !in.R.IsInt() || in.R.Num().Int64() < 0 || int(in.R.Num().Int64()) >= n || !core.EqualFast(core.Norm(objs[in.R.Num().Int64()]), o.Val) {
			return mk("not-an-input-element", "one of the input elements")
		}
	}
	return nil
}

func (c c13Case) keysText() string {
	parts := make([]string, len(c.Keys))
	for i := range c.Keys {
		parts[i] = c.keyText(i)
	}
	return strings.Join(parts, ",")
}

func lenClass(n int) string {
	switch {
	case n <= 1:
		return "0-1"
	case n <= 12:
		return "2-12"
	}
	return "13+"
}

func isPermutation(got []any, objs []any) bool {
	seen := map[int64]bool{}
	for _, g := range got {
		m, ok := g.(map[string]any)
		if !ok {
			return false
		}
		in, ok := m["i"].(*core.Num)
		if !ok || !in.R.IsInt() {
			return false
		}
		i := in.R.Num().Int64()
		if i < 0 || int(i) >= len(objs) || seen[i] || !core.EqualFast(core.Norm(objs[i]), g) {
			return false
		}
		seen[i] = true
	}
	return len(seen) == len(objs)
}

func orderedBy(got []any, field string) bool {
	for i := 1; i < len(got); i++ {
		a, b := got[i-1].(map[string]any)[field], got[i].(map[string]any)[field]
		if c13Class(a) != c13Class(b) || c13Class(a) == 2 {
			return false
		}
		if c13Less(b, a) {
			return false
		}
	}
	return true
}

// c13Enumerate calls f for every case of the space.
func c13Enumerate(thorough bool, f func(c13Case)) {
	var rec func(kind string, alpha, maxLen int, keys []int)
	rec = func(kind string, alpha, maxLen int, keys []int) {
		f(c13Case{Kind: kind, Keys: append([]int{}, keys...)})
		if len(keys) == maxLen {
			return
		}
		for k := 0; k < alpha; k++ {
			rec(kind, alpha, maxLen, append(keys, k))
		}
	}
	bin, tri, spell := 14, 6, 4
	if thorough {
		bin, tri, spell = 16, 8, 5
	}
	for _, kind := range []string{"num", "str"} {
		rec(kind, 2, bin, nil)
		// three keys: skip arrays already covered by the two-key enumeration cheaply (duplicates are harmless but counted once)
		rec(kind, 3, tri, nil)
		rec(kind, 5, 4, nil)
	}
	rec("spell", len(c13Spell), spell, nil)
	// numbers that differ below the resolution of binary64
	rec("big", len(c13BigKeys), 3, nil)
	rec("numspell", len(c13NumSpell), 4, nil)
	rec("prefix", len(c13PrefixKeys), 3, nil)
	// long arrays: complete pattern families
	for _, kind := range []string{"num", "str", "numspell"} {
		for n := 13; n <= 64; n++ {
			for m := 1; m <= 5; m++ { // periodic i mod m (m = 1: constant)
				keys := make([]int, n)
				for i := range keys {
					keys[i] = i % m
				}
				f(c13Case{Kind: kind, Keys: keys})
				// descending periodic
				rev := make([]int, n)
				for i := range rev {
					rev[i] = (n - 1 - i) % m
				}
				f(c13Case{Kind: kind, Keys: rev})
			}
			// two blocks: first half key 1, second half key 0, and sorted with one inversion at every position
			for p := 0; p+1 < n; p++ {
				keys := make([]int, n)
				for i := range keys {
					if i*3/n >= 1 {
						keys[i] = 1
					}
					if i*3/n >= 2 {
						keys[i] = 2
					}
				}
				keys[p], keys[p+1] = keys[p+1], keys[p]
				if !thorough && p%3 != 0 {
					continue
				}
				f(c13Case{Kind: kind, Keys: keys})
			}
		}
	}
}

func c13Run(r *core.Run) {
	n := 0
	seen := map[string]bool{}
	c13Enumerate(r.Thorough(), func(c c13Case) {
		n++
		if !r.Mine(n) || r.Expired() {
			return
		}
		id := c.Kind + ":" + c.keysString()
		if seen[id] {
			return
		}
		seen[id] = true
		r.Add("states", 1)
		distinct := false
		for _, k := range c.Keys {
			if k != c.Keys[0] {
				distinct = true
			}
		}
		for _, op := range c13Ops {
			r.Begin(map[string]any{"expr": op, "doc": id})
			if v := c13Check(r, c, op); v != nil {
				r.Violate(v)
			}
		}
		if distinct {
			r.Outcome(id)
		}
		if n%7919 == 0 {
			r.Sample(func() any { return map[string]any{"kind": c.Kind, "keys": c.keysText(), "ops": c13Ops} })
		}
	})
	r.Bound("key_alphabets", map[string]any{"num": c13NumKeys, "str": c13StrKeys, "spell": c13Spell, "big": c13BigKeys})
	r.Bound("max_length_two_keys", map[bool]int{false: 14, true: 16}[r.Thorough()])
	r.Bound("long_pattern_lengths", "13..64")
}

func c13Judge(r *core.Run, phase string, pt map[string]any) *core.Violation {
	c := c13Case{Kind: pstr(pt, "kind")}
	if ks := pstr(pt, "keys"); ks != "" {
		for _, s := range strings.Split(ks, ",") {
			var k int
			fmt.Sscan(s, &k)
			c.Keys = append(c.Keys, k)
		}
	}
	return c13Check(r, c, pstr(pt, "op"))
}
