package props

import (
	"fmt"
	"strings"

	"github.com/woodsbury/jmespath/internal/verifmc/core"
	"github.com/woodsbury/jmespath/internal/verifmc/ref"
)

// C04 — Compile accepts exactly the grammar (form G over strings; differential
// against the reference recogniser, with evaluation on distinguishing documents
// for accepted strings so that nothing is silently reinterpreted).

var c04Alphabet = []string{"a", "1", "-", ".", "*", "[", "]", "{", "}", "(", ")", ",", ":", "?", "&", "|", "=", "!", "<", "'", `"`, "`", `\`, "@", "$", " ", "u", "\xc3", "\x80", "é", "+"}

var c04Docs = []doc{
	mkDoc(`{"a":{"a":[1,2,{"a":3}],"u":"s"},"u":[{"a":1,"u":2},{"a":[3],"u":null}],"é":1,"1":2}`),
	mkDoc(`[[1,{"a":2}],{"a":[1],"u":{"a":1}},"a",null]`),
	mkDoc(`{"a":[{"u":1},{"u":"x","a":true}],"u":{"a":"b","u":[0]}}`),
	mkDoc(`"au"`), mkDoc(`3`), mkDoc(`null`),
}

func init() {
	core.Register(&core.Check{
		ID:    "C04",
		Title: "Compile accepts exactly the JMESPath grammar and rejects everything else",
		Rule: "(1) every byte string up to the stated length over the 31-symbol alphabet (one symbol per scanner branch, incl. truncated and stray UTF-8 bytes), (2) every valid expression of the C01/C02/C19 menus with one whitespace character at every token gap and at all gaps at once, " +
			"(3) the complete single-token-edit neighbourhood (delete, duplicate, swap, replace by / insert each token kind) of the valid expressions, and (4) every sequence of literal-body fragments inside the four quote syntaxes is given to Compile; " +
			"the verdict must match the reference recogniser (accept / syntax error), and every accepted string is evaluated on the distinguishing documents and compared with the reference value so that a malformed string is never silently read as another one; " +
			"non-trivial = a string that compiles; distinct_nontrivial counts distinct outcomes on the first distinguishing document",
		Phases: []core.Phase{{Name: "strings", Build: "instr", Fn: c04RunStrings}, {Name: "edits", Build: "instr", Fn: c04RunEdits}},
		Judge:  c04Judge,
		Assumptions: []string{
			"the grammar is the one transcribed in mc/ref (DESIGN.md appendix B); where it is silent or implementations legitimately differ the recogniser answers UNSURE and the string is counted, not judged: let/in as identifiers, lone surrogate escapes, integer literals beyond 64 bits",
			"strings that are in the grammar but statically invalid (unknown function, wrong arity, & in a value position, step 0) must fail with that static category (see C08)",
		},
	})
}

// c04Check judges one string.
func c04Check(r *core.Run, s string, family string) *core.Violation {
	c := prepare(s)
	r.Add("evaluations", 1)
	p := c.Prose
	mk := func(kind, exp, act string, d string) *core.Violation {
		return &core.Violation{Sig: "C04/" + kind + "/" + family + "/" + ref.TailShape(s, 2), Desc: fmt.Sprintf("Compile(%q)", s),
			Point: map[string]any{"expr": s, "doc": d, "family": family}, Expected: exp, Actual: act}
	}
	if c.CompObs.Kind == "panic" {
		return mk("panic", "a verdict", c.CompObs.Short(), "null")
	}
	// the verdict on a text does not change when it is asked for again: Compile twice more, MustCompile once
	for k := 0; k < 2; k++ {
		if _, again := core.Compile(s); again.Key() != c.CompObs.Key() {
			return mk("verdict-changes-on-repetition", "the first verdict: "+c.CompObs.Short(), again.Short(), "null")
		}
	}
	if _, panicked, _ := core.MustCompile(s); panicked != (c.Expr == nil) {
		return mk("mustcompile-disagrees-with-compile", fmt.Sprintf("MustCompile panics = %v", c.Expr == nil), fmt.Sprintf("panicked = %v", panicked), "null")
	}
	// whatever the grammar says, the three entry points must agree on it: one-shot Search on an object document
	// gives what Compile + Expression.Search gives
	if one, two := core.Search(s, c04Docs[0].Raw), c.run(c04Docs[0].Raw); one.Key() != two.Key() && !(one.Kind == "ok" && two.Kind == "ok" && sortedEqual(one.Val, two.Val)) {
		return mk("routes-differ", "Search == Compile + Expression.Search: "+two.Short(), one.Short(), c04Docs[0].Text)
	}
	if p.U != "" || c.RefImpl.U != "" || p.Syntax != c.RefImpl.Syntax {
		r.AbstainOn("recogniser UNSURE: " + firstNonEmpty(p.U, c.RefImpl.U, "the two readings of the projection rule disagree on membership"))
		r.Add("oracle_abstained", 1)
		return nil
	}
	r.Add("oracle_determinate", 1)
	compiled := c.Expr != nil
	switch {
	case p.Syntax:
		// OUT: must fail, as a syntax error (or with a static fault found before the syntax error)
		if compiled {
			o := c.run(c04Docs[0].Raw)
			return mk("accepted-outside-grammar", "error[syntax] ("+p.Msg+")", "compiles; on the first document: "+o.Short(), c04Docs[0].Text)
		}
		if !catIn(c.CompObs, append([]string{"syntax"}, p.Static...)) {
			return mk("wrong-category", "error[syntax]", c.CompObs.Short(), "null")
		}
		return nil
	case len(p.Static) > 0:
		if compiled {
			return mk("static-fault-not-reported", "error["+strings.Join(p.Static, "|")+"]", "compiles", "null")
		}
		if !catIn(c.CompObs, p.Static) {
			return mk("wrong-category", "error["+strings.Join(p.Static, "|")+"]", c.CompObs.Short(), "null")
		}
		return nil
	}
	// IN
	if !compiled {
		return mk("rejected-inside-grammar", "compiles (reference parse: "+p.AST.String()+")", c.CompObs.Short(), "null")
	}
	r.Add("nontrivial_evaluations", 1)
	for i, d := range c04Docs {
		want := c.refEval(d.Norm)
		o := c.run(d.Raw)
		r.Add("evaluations", 1)
		if i == 0 && o.Kind == "ok" {
			r.Outcome(o.Key())
		}
		if want.U != "" {
			continue
		}
		if k := ref.Diff(o, want); k != "" {
			return mk("means-something-else/"+k, want.String(), o.Short(), d.Text)
		}
	}
	return nil
}

func firstNonEmpty(ss ...string) string {
	for _, s := range ss {
		if s != "" {
			return s
		}
	}
	return ""
}

func catIn(o core.Obs, cats []string) bool {
	if o.Kind != "err" || len(o.Cats) != 1 {
		return false
	}
	for _, c := range cats {
		if c == o.Cats[0] {
			return true
		}
	}
	return false
}

func c04RunStrings(r *core.Run) {
	if bad := refSelfCheck(); bad != "" {
		r.InternalError(bad)
		return
	}
	L := 4
	if r.Thorough() {
		L = 5
	}
	r.Bound("alphabet", c04Alphabet)
	r.Bound("max_length", L)
	n := 0
	// shard on the first two symbols
	var rec func(s string, l int)
	rec = func(s string, l int) {
		r.Add("states", 1)
		r.Begin(map[string]any{"expr": s, "doc": ""})
		if v := c04Check(r, s, "all-strings"); v != nil {
			r.Violate(v)
		}
		n++
		if n%20011 == 0 {
			r.Sample(func() any { return map[string]any{"string": s, "compiles": prepareImpl(s).Expr != nil} })
		}
		if l == L {
			return
		}
		for _, ch := range c04Alphabet {
			rec(s+ch, l+1)
		}
	}
	k := 0
	if r.Mine(0) {
		c04Check(r, "", "all-strings")
	}
	for _, a := range c04Alphabet {
		if r.Mine(k) {
			r.Begin(map[string]any{"expr": a, "doc": ""})
			if v := c04Check(r, a, "all-strings"); v != nil {
				r.Violate(v)
			}
		}
		for _, b := range c04Alphabet {
			k++
			if !r.Mine(k) || r.Expired() {
				continue
			}
			rec(a+b, 2)
		}
	}
	// literal bodies
	frags := []string{`\`, "'", `"`, "`", "a", "u", "/", "n", "0041", "D83D", "DE00", "é", "�", "\n", "\t", "{", "}", "[", "]", ":", ",", "1", "true", "\\u"}
	maxF := 3
	if r.Thorough() {
		maxF = 4
	}
	r.Bound("literal_fragments", frags)
	r.Bound("max_fragments", maxF)
	wraps := [][2]string{{"'", "'"}, {`"`, `"`}, {"`", "`"}, {"`\"", "\"`"}, {"a.\"", "\""}}
	m := 0
	var body func(s string, l int)
	body = func(s string, l int) {
		m++
		if r.Mine(m) && !r.Expired() {
			for _, w := range wraps {
				e := w[0] + s + w[1]
				r.Add("states", 1)
				r.Begin(map[string]any{"expr": e, "doc": ""})
				if v := c04Check(r, e, "literal-bodies"); v != nil {
					r.Violate(v)
				}
			}
		}
		if l == maxF {
			return
		}
		for _, f := range frags {
			body(s+f, l+1)
		}
	}
	body("", 0)
}

// token kinds used for replacement / insertion edits, by representative text
var c04TokenTexts = []string{"a", `"q"`, "'r'", "`1`", "1", "-1", "$v", "$", "@", "&", ".", ",", ":", "(", ")", "{", "}", "[", "]", "[]", "[?", "*", "|", "||", "&&", "!", "==", "!=", "<", "<=", ">", ">=",
	"+", "-", "−", "×", "/", "÷", "//", "%", "=", "let", "in", "abs", "[*]", ".*", "08", "-09", "010", "00", "-0"}

func c04ValidExpressions(thorough bool) []string {
	seen := map[string]bool{}
	var out []string
	add := func(s string) {
		if !seen[s] {
			seen[s] = true
			out = append(out, s)
		}
	}
	// a cross-section of the valid spaces of the other checks
	for i, e := range c01Expressions(false) {
		if i%29 == 0 || len(e.Text) <= 6 {
			add(e.Text)
		}
	}
	for i, e := range c19Expressions(false) {
		if i%499 == 0 {
			add(e.Text)
		}
	}
	for _, e := range c18First {
		add(e)
	}
	for _, e := range []string{"a.b.c", "a[0].b[1:2]", "a[*].b[?c == `1`].d", "{a: b, \"c\": d.e}", "[a, b.c, `1`]", "a | b | c", "a || b && !c", "a == b || c != d", "abs(a) + b * c - d / e",
		"let $x = a, $y = b in [$x, $y]", "sort_by(a, &b)[0]", "map(&[@, $x], a)", "a.*.b", "*.a[*]", "a[?b > `1` && c][].d", "@.a", "$.a[0]", "a[::2]", "a[-1:]", "a.\"b c\"", "'x' == a", "not_null(a, b, c)",
		"a < b", "a <= b", "a > b", "a >= b", "a − b", "a × b ÷ c", "a // b % c", "+a", "-a", "!a", "(a)", "(a.b)[0]", "a.[b, c]", "a.{k: b}", "a[?@]", "[?a]", "[*]", "[]", "*", "a[]", "a[*]", "a.*", "a[?b].c",
		"a[08]", "a[010]", "a[-09:08:010]", "[00]", "a[:-0]", "a[0x1]", "a[1e1]", "a[+1]", "a[1.0]", "a[- 1]", "join(', ', a)", "find_first(a, 'x', `0`, `2`)", "merge(a, b)", "to_string(@)", "a[*].b.*.c[]"} {
		add(e)
	}
	return out
}

// c04Long: grammar members made of n repetitions of one construct; they must compile whatever their length.
func c04Long(n int) []string {
	rep := strings.Repeat
	return []string{
		"[" + rep("-a, ", n) + "a]", "a" + rep(" + -a", n), "a" + rep(" - a", n), rep("!", n%2*0+2*(n/2)) + "a", "a" + rep(" && !a", n), "a" + rep(".a", n), "[" + rep("a, ", n) + "a]",
		"{" + rep("k: -a, ", n) + "z: a}", "a" + rep(" | -a", n), "not_null(" + rep("-a, ", n) + "a)", "a" + rep(" == -a", n%7+1), "[" + rep("+a, ", n) + "a]", "[" + rep("(a), ", n) + "a]",
		"[" + rep("a[0], ", n) + "a]", "[" + rep("`1`, ", n) + "a]", "[" + rep("'x', ", n) + "a]", "[" + rep("a[?b], ", n/4+1) + "a]", "[" + rep("abs(a), ", n) + "a]", "a" + rep(" || a[*].b", n/2+1),
	}
}

func c04RunEdits(r *core.Run) {
	if bad := refSelfCheck(); bad != "" {
		r.InternalError(bad)
		return
	}
	sizes := []int{10, 100, 999, 1000, 1001, 1500}
	if r.Thorough() {
		sizes = append(sizes, 4096, 10000)
	}
	r.Bound("long_expression_sizes", sizes)
	li := 0
	for _, n := range sizes {
		for _, e := range c04Long(n) {
			li++
			if !r.Mine(li) {
				continue
			}
			r.Add("states", 1)
			r.Begin(map[string]any{"expr": trunc(e, 200), "doc": ""})
			if v := c04Check(r, e, "long-flat"); v != nil {
				r.Violate(v)
			}
		}
	}
	exprs := c04ValidExpressions(r.Thorough())
	r.Bound("valid_expressions", len(exprs))
	r.Bound("token_kinds_for_edits", len(c04TokenTexts))
	seen := map[string]bool{}
	try := func(s, family string) {
		if seen[s] {
			return
		}
		seen[s] = true
		r.Add("states", 1)
		r.Begin(map[string]any{"expr": s, "doc": ""})
		if v := c04Check(r, s, family); v != nil {
			r.Violate(v)
		}
	}
	for i, e := range exprs {
		if !r.Mine(i) {
			continue
		}
		if r.Expired() {
			return
		}
		toks, ok := ref.Tokens(e)
		if !ok {
			r.InternalError("valid expression does not scan: " + e)
			continue
		}
		try(e, "valid")
		join := func(parts []string) string { return strings.Join(parts, " ") }
		texts := make([]string, len(toks))
		for j, t := range toks {
			texts[j] = t.Text
		}
		// whitespace: one character at every gap (keeping the original spacing elsewhere), and at all gaps at once
		// the four whitespace characters of the grammar, and look-alikes that are NOT whitespace (form feed,
		// vertical tab, no-break space, line separator, byte order mark): the latter must be rejected
		for _, ws := range []string{" ", "\t", "\n", "\r", "\f", "\v", "\u00a0", "\u2028", "\ufeff", "\x00", "\u0085", "\u1680", "\u2003", "\u3000", "\u200b"} {
			for j := 0; j <= len(toks); j++ {
				pos := len(e)
				if j < len(toks) {
					pos = toks[j].Pos
				}
				try(e[:pos]+ws+e[pos:], "whitespace")
			}
			var all strings.Builder
			prev := 0
			for _, t := range toks {
				all.WriteString(e[prev:t.Pos])
				all.WriteString(ws)
				prev = t.Pos
			}
			all.WriteString(e[prev:])
			all.WriteString(ws)
			try(all.String(), "whitespace")
		}
		// no whitespace at all between tokens that do not need it is covered by the original spellings
		// token edits (tokens re-joined with single spaces)
		for j := range texts {
			del := append(append([]string{}, texts[:j]...), texts[j+1:]...)
			try(join(del), "token-deleted")
			dup := append(append(append([]string{}, texts[:j+1]...), texts[j]), texts[j+1:]...)
			try(join(dup), "token-duplicated")
			if j+1 < len(texts) {
				sw := append([]string{}, texts...)
				sw[j], sw[j+1] = sw[j+1], sw[j]
				try(join(sw), "tokens-swapped")
			}
			try(join(texts[:j+1]), "truncated")
			for _, tt := range c04TokenTexts {
				rep := append([]string{}, texts...)
				rep[j] = tt
				try(join(rep), "token-replaced")
			}
		}
		for j := 0; j <= len(texts); j++ {
			for _, tt := range c04TokenTexts {
				ins := append(append(append([]string{}, texts[:j]...), tt), texts[j:]...)
				try(join(ins), "token-inserted")
			}
		}
		if i%37 == 0 {
			r.Sample(func() any { return map[string]any{"valid_expression": e, "tokens": len(toks)} })
		}
	}
}

func c04Judge(r *core.Run, phase string, pt map[string]any) *core.Violation {
	return c04Check(r, pstr(pt, "expr"), pstr(pt, "family"))
}
