package props

import (
	"encoding/json"
	"fmt"
	"strings"

	"github.com/woodsbury/jmespath/internal/verifmc/core"
	"github.com/woodsbury/jmespath/internal/verifmc/ref"
	"github.com/woodsbury/jmespath/internal/verifrt"
)

// C15 — evaluation is deterministic apart from object member order (form E:
// every range over a map is an environment question answered by the explorer).

var c15Exprs = []string{
	// let: bindings of one let are evaluated in map order
	"let $x = a, $y = b in [$x, $y]", "let $x = a, $y = $x in [$x, $y]", "let $x = a in let $x = b, $y = $x in [$x, $y]", "let $x = a, $y = b, $z = c in {p: $x, q: $y, r: $z}",
	"let $x = abs('s'), $y = $nope in $x", "let $x = a, $y = b in let $y = $x, $x = $y in [$x, $y]", "let $b = b, $a = a in o[*].[$a, $b, a]",
	// a binding that leaked out of its let would be seen by the sibling members evaluated after it (in map order)
	"let $x = a in {p: $y, q: let $y = b in $y, r: $x}", "let $x = a in {p: let $y = b in $y, q: $y}", "let $b = a, $a = c in let $a = b in {p: $b, q: let $b = c in $b, r: $b}",
	"{p: let $v = a in $v, q: let $v = b in $v, r: $v}", "let $x = a in {r: [$x, let $x = b in $x, $x], p: $x, q: let $x = c in $x}",
	// multi-select hash: fields are evaluated and stored in map order
	"{p: a, q: b}", "{p: a, q: b, r: c, s: o}", "{p: a, p: b}", "{p: a, q: b, p: c}", "o[*].{p: a, q: b}", "{p: a, q: {r: b, s: c}}", "{p: abs('s'), q: $nope}", "{p: a, q: b} == {q: b, p: a}", "m.{p: x, q: y, r: z}",
	"[{p: a, q: b}, {q: b, p: a}]", "{p: a, q: b}.p", "{p: a, q: b}.q",
	// merge, from_items, group_by
	"merge(m, n)", "merge(n, m)", "merge(m, n, m)", "merge(m, {x: `9`}, n)", "merge(m, n).x", "from_items(pairs)", "from_items(pairs).k", "group_by(o, &k)", "group_by(o, &k).x", "group_by(o, &k) == group_by(o, &k)",
	// equality on objects iterates one operand
	"m == n", "m == m", "m != n", "[m] == [m]", "contains([m, n], m)", "m == `{\"x\":1,\"y\":2,\"z\":3}`", "n == merge(n, n)", "o[?@ == `{\"a\":1,\"b\":2,\"k\":\"x\"}`]",
	// enumerating constructs (order of the produced array may vary)
	"*", "m.*", "keys(m)", "values(m)", "items(m)", "o[*].*", "m.* | length(@)", "length(keys(m))", "sort(keys(m))", "sort(values(m))", "sum(values(m))", "max(values(m))", "keys(merge(m, n))", "keys(m) | sort(@)",
	"*.x", "deep.*.x", "deep.*.*", "items(m)[*][0]", "sort(items(m)[*][0])", "from_items(items(m))", "from_items(items(m)) == m", "to_string(m)", "to_string(deep)", "length(values(deep))", "*.*",
	"sort(values(n))", "sort(m.*)", "max(values(m))", "min(values(n))", "sort(deep.*.x)", "sort_by(values(deep), &x)", "max_by(o, &x)", "sort(values(m)) || 'failed'", "sum(values(n))", "avg(n.*)", "sort(o[*].k)",
	"values(m)[?@ > `1`] | sort(@)", "contains(keys(m), 'x')", "contains(values(m), `2`)", "map(&length(@), values(deep)) | sort(@)", "type(keys(m))", "not_null(m.*)",
	// nothing map-related at all: repeated evaluations of one compiled expression and evaluation order of long projections
	"reverse(`[1,2,3]`)", "sort(`[3,1,2]`)", "o[*].[a, reverse(`[\"p\",\"q\"]`)[0]]", "`[3,1,2]`[::-1]", "reverse(keys(m)) | sort(@)", "big[*].k", "big[*].k | [0]", "big[*].k | [-1]", "join(',', big[*].s)",
	"big[?k > `300`].k | [0]", "big[].k | [5]", "map(&k, big) | [511]", "big[*].[k][] | [600]", "length(big[*].k)", "sort_by(big, &s)[0].k", "big[::-1][*].k | [0]",
	"a", "o[*].a", "sort_by(o, &a)[*].k", "a + b",
	// sibling members and sibling bindings that build their values from the same array (an evaluation that works on the
	// shared array in place, or appends into its spare capacity, makes the siblings depend on their evaluation order)
	"{p: [o, `[10]`][], q: [o, `[20]`][]}", "let $f = o[?a == `1`] in {p: [$f, `[10]`][], q: [$f, `[20]`][]}", "let $p = [pairs, `[[1]]`][], $q = [pairs, `[[2]]`][] in [$p, $q]",
	"{p: [o[*].a, `[10]`][], q: [o[*].a, `[20]`][], r: o[*].a}", "let $f = o[*].k in {p: [$f, `[\"u\"]`][], q: length([$f, `[\"v\"]`][]), r: $f}", "{p: sort(pairs[*][0]), q: reverse(pairs[*][0]), r: pairs[*][0]}",
	"let $f = o[?k] in {p: $f[?a], q: $f[?!a], r: $f}", "let $f = pairs[*][1] in {p: [$f, $f][], q: [$f][] , r: [`[0]`, $f][]}", "{p: merge(m, n), q: merge(m, `{\"x\":0}`), r: m}", "let $f = o[1:] in {p: [$f, `[1]`][], q: [$f, `[2]`][]}",
}

func c15Big(n int) string {
	parts := make([]string, n)
	for i := range parts {
		parts[i] = fmt.Sprintf(`{"k":%d,"s":"s%d"}`, i, i%97)
	}
	return "[" + strings.Join(parts, ",") + "]"
}

func c15Docs() []string {
	return []string{

		`{"a":1,"b":2,"c":3,"m":{"x":1,"y":2,"z":3},"n":{"y":20,"z":3,"w":4},"o":[{"a":1,"b":2,"k":"x"},{"a":3,"b":4,"k":"y"},{"a":1,"b":2,"k":"x"}],"pairs":[["k",1],["j",2],["k",3]],"deep":{"p":{"x":1,"y":2},"q":{"x":3},"r":{}}}`,
		`{"a":"s","b":null,"m":{"x":null,"y":[1],"z":{"x":1}},"n":{},"o":[],"pairs":[],"deep":{"p":{"x":{"x":1}}}}`,
		`{"a":[1,2],"b":{"x":1},"c":0,"m":{"x":1,"y":1,"z":1,"w":1},"n":{"x":1,"y":1,"z":1,"w":1},"o":[{"k":"x"},{"k":"x"},{"k":"z"}],"pairs":[["a","b"],["c","d"],["e","f"]],"deep":{"a":{"b":1},"b":{"a":1}}}`,
		`{"m":{"x":1,"y":2},"n":{"x":1,"y":2},"a":1,"b":1,"c":1,"o":[{"a":1,"b":2,"k":"x"}],"pairs":[["x",{"y":1}]],"deep":{"only":{"x":1,"y":2,"z":3,"w":4,"v":5}}}`,
		`{"m":{"x":"","y":null,"z":"a"},"n":{"a":0,"b":null,"c":-3},"a":"","b":0,"c":null,"o":[{"k":"","x":0},{"k":null,"x":null},{"k":"a","x":-1}],"pairs":[["",0],["a",null]],"deep":{"p":{"x":""},"q":{"x":null},"r":{"x":0}}}`,
		`{"m":{"x":1,"y":"s","z":null,"w":[1],"v":{"x":1}},"n":{"x":"1","y":"s","u":2,"w":[1],"v":{"x":1.0}},"a":{"x":1},"b":{"x":1.0},"c":"c","o":[{"k":"p","x":1},{"k":"q","x":2},{"k":"p","x":3},{"k":"r"}],"pairs":[["x",1],["y",2],["x",3],["z",4]],"deep":{"p":{"x":1,"y":{"x":2}},"q":{"y":1,"x":{"y":2}}}}`,
	}
}

// c15Doc: a document text starting with "float64:" is decoded with encoding/json's default number type.
func c15Doc(text string) doc {
	if rest, ok := strings.CutPrefix(text, "float64:"); ok {
		var raw any
		if err := json.Unmarshal([]byte(rest), &raw); err != nil {
			panic("c15: bad document " + text)
		}
		return doc{Text: text, Raw: raw, Norm: core.Norm(raw)}
	}
	return mkDoc(text)
}

var c15EnumeratingFuncs = []string{"projectObject", "items", "keys", "values", "objectValues"}

func c15Enumerating(site string) bool {
	fn := site
	if i := strings.Index(site, "@"); i >= 0 {
		fn = site[:i]
	}
	if i := strings.LastIndex(fn, "."); i >= 0 {
		fn = fn[i+1:]
	}
	for _, f := range c15EnumeratingFuncs {
		if fn == f {
			return true
		}
	}
	return false
}

func init() {
	core.Register(&core.Check{
		ID:    "C15",
		Title: "evaluation is deterministic apart from object member order",
		Rule: "every range over a Go map inside the library is an environment question ('in which order are these n keys enumerated?') answered by the explorer; for every (expression, document) of the menu every vector of answers is explored " +
			"(all n! orders at every question reached, independently; when the tree exceeds the execution cap, every vector with at most two non-default answers, or at most one where even that tree exceeds 15 x the cap; the counters say how many pairs fell in each class); executions whose non-default answers are all at non-enumerating sites (let, multi-select hash, merge, equality, AST walk) must give the identical observation, " +
			"executions that permute an enumerating site (object wildcard, keys, values, items) must agree after sorting the arrays; err-vs-err with different categories is permitted; a second phase repeats every point on the pristine build with Go's own randomised iteration; " +
			"non-trivial = an (expression, document) pair with at least one question of two or more keys; distinct_nontrivial counts distinct default outcomes among them",
		Phases: []core.Phase{{Name: "answers", Build: "instr", Fn: c15Run}, {Name: "runtime-order", Build: "pristine", Fn: c15RunPristine}, {Name: "other-expressions-first", Build: "pristine", Fn: c15RunEarlier}, {Name: "other-document-first", Build: "instr", Fn: c15RunOtherDoc}},
		Judge:  c15Judge,
		Assumptions: []string{
			"the seam covers every range statement over a map in the four packages (the instrumenter lists the sites and any it had to skip); iteration inside encoding/json is sorted by the standard library",
			"expressions that feed an enumeration-derived array into an order-sensitive consumer (keys(@)[0], join over keys) are outside the menu: their variation is the permitted one",
		},
	})
}

// perms of n in lexicographic order
var permCache = map[int][][]int{}

func permsOf(n int) [][]int {
	if p, ok := permCache[n]; ok {
		return p
	}
	var out [][]int
	var rec func(cur []int, used []bool)
	rec = func(cur []int, used []bool) {
		if len(cur) == n {
			out = append(out, append([]int{}, cur...))
			return
		}
		for i := 0; i < n; i++ {
			if !used[i] {
				used[i] = true
				rec(append(cur, i), used)
				used[i] = false
			}
		}
	}
	rec(nil, make([]bool, n))
	permCache[n] = out
	return out
}

func factorial(n int) int {
	f := 1
	for i := 2; i <= n; i++ {
		f *= i
		if f > 1<<20 {
			return 1 << 20
		}
	}
	return f
}

type c15Question struct {
	Site string
	N    int
}

type c15Exec struct {
	Obs       core.Obs
	Questions []c15Question
	Choices   []int
}

// c15Execute runs one evaluation answering the questions with prefix, then defaults.
func c15Execute(c *compiled, d any, prefix []int) c15Exec {
	var x c15Exec
	verifrt.Perm = func(site string, n int) []int {
		i := len(x.Questions)
		x.Questions = append(x.Questions, c15Question{site, n})
		choice := 0
		if i < len(prefix) {
			choice = prefix[i]
		}
		x.Choices = append(x.Choices, choice)
		if n > 6 {
			// beyond 6 keys only the sorted order and its reverse are offered
			if choice == 0 {
				id := make([]int, n)
				for k := range id {
					id[k] = k
				}
				return id
			}
			rev := make([]int, n)
			for k := range rev {
				rev[k] = n - 1 - k
			}
			return rev
		}
		ps := permsOf(n)
		if choice >= len(ps) {
			panic(fmt.Sprintf("c15: replay divergence: choice %d of %d at question %d (%s)", choice, len(ps), i, site))
		}
		return ps[choice]
	}
	defer func() { verifrt.Perm = nil }()
	x.Obs = c.run(d)
	return x
}

func altsOf(q c15Question) int {
	if q.N > 6 {
		return 2
	}
	return factorial(q.N)
}

var c15Cap = 4000 // thorough: 100000

// c15Generated: every object-valued producer under every order-insensitive consumer.
func c15Generated() []string {
	producers := []string{"m", "n", "merge(m, n)", "{p: a, q: b, r: c}", "from_items(pairs)", "group_by(o, &k)", "deep", "deep.p", "let $x = m, $y = n in merge($x, $y)", "from_items(items(m))", "o[0]", "merge(m, {x: a})", "{x: m.x, y: n.y, z: c}"}
	consumers := []string{"sort(keys(%s))", "length(%s)", "%s == %s", "%s == m", "to_string(%s)", "sort(values(%s)[?type(@) == 'number'])", "%s.x", "length(items(%s))", "sort(items(%s)[*][0])", "type(%s)", "%s.* | length(@)",
		"merge(%s, %s) == %s", "[%s, %s][*].x", "contains([%s], %s)", "max(values(%s)[?type(@) == 'number'])", "{u: %s, v: keys(%s) | sort(@)}", "%s != n", "[%s][?x].y", "not_null(%s.nope, %s.x)", "from_items(items(%s)) == %s"}
	var out []string
	for _, p := range producers {
		for _, c := range consumers {
			out = append(out, strings.ReplaceAll(c, "%s", p))
		}
	}
	return out
}

// c15Explore explores the answer tree of one (expression, document).
func c15Explore(r *core.Run, expr string, docText string) *core.Violation {
	c := prepareImplCached(expr)
	d := c15Doc(docText)
	base := c15Execute(c, d.Raw, nil)
	r.Eval(base.Obs)
	r.Add("states", 1)
	// the same answers again (on the same compiled expression, and through a fresh compilation): identical observation
	for k := 0; k < 3; k++ {
		var again core.Obs
		if k == 2 {
			again = core.Search(expr, d.Raw)
		} else {
			again = c15Execute(c, d.Raw, nil).Obs
		}
		r.Add("evaluations", 1)
		if again.Key() != base.Obs.Key() && !(again.Kind == "err" && base.Obs.Kind == "err") {
			return &core.Violation{Sig: "C15/repeated-evaluation-differs/" + fnOf(expr), Desc: fmt.Sprintf("Search(%q, %s) evaluated again with the same map orders", expr, trunc(docText, 100)),
				Point: map[string]any{"expr": expr, "doc": docText, "choices": "", "strict": true, "repeat": true}, Expected: "the first outcome: " + base.Obs.Short(), Actual: again.Short()}
		}
	}
	interesting := false
	product := 1
	for _, q := range base.Questions {
		if q.N >= 2 {
			interesting = true
		}
		product *= altsOf(q)
		if product > 1<<24 {
			product = 1 << 24
		}
	}
	if !interesting {
		return nil
	}
	r.Add("nontrivial_evaluations", 1)
	r.Outcome(expr + "\x00" + base.Obs.Key())
	bound := -1 // unbounded
	if product > c15Cap {
		bound = 2
		// size of the two-deviation tree, estimated on the default execution's questions
		one, two := 0, 0
		for i, q := range base.Questions {
			one += altsOf(q) - 1
			for _, q2 := range base.Questions[i+1:] {
				two += (altsOf(q) - 1) * (altsOf(q2) - 1)
			}
		}
		if 1+one+two > 15*c15Cap {
			bound = 1
			r.Add("pairs_explored_with_deviation_bound_1", 1)
		} else {
			r.Add("pairs_explored_with_deviation_bound_2", 1)
		}
	} else {
		r.Add("pairs_explored_exhaustively", 1)
	}
	execs := 0
	var viol *core.Violation
	var explore func(prefix []int, deviations int)
	explore = func(prefix []int, deviations int) {
		if viol != nil || execs > 20*c15Cap {
			return
		}
		x := c15Execute(c, d.Raw, prefix)
		execs++
		r.Beat()
		r.Add("transitions", 1)
		r.Add("evaluations", 1)
		if len(prefix) > 0 {
			// classify the deviations made so far
			strict := true
			for i, ch := range x.Choices {
				if ch != 0 && c15Enumerating(x.Questions[i].Site) {
					strict = false
				}
			}
			if v := c15Compare(expr, docText, base.Obs, x, strict); v != nil {
				viol = v
				return
			}
		}
		for i := len(prefix); i < len(x.Questions); i++ {
			if bound >= 0 && deviations >= bound {
				break
			}
			for alt := 1; alt < altsOf(x.Questions[i]); alt++ {
				next := append(append([]int{}, x.Choices[:i]...), alt)
				explore(next, deviations+1)
			}
		}
	}
	explore(nil, 0)
	if execs > 20*c15Cap {
		r.Cap("execution cap per (expression, document)")
	}
	return viol
}

func c15Compare(expr, docText string, base core.Obs, x c15Exec, strict bool) *core.Violation {
	o := x.Obs
	if base.Kind == "err" && o.Kind == "err" {
		return nil // which fault is reported may vary
	}
	same := base.Key() == o.Key()
	kind := "outcome-depends-on-map-order"
	if !same && !strict && base.Kind == "ok" && o.Kind == "ok" {
		same = sortedEqual(base.Val, o.Val)
		kind = "outcome-differs-beyond-member-order"
	}
	if same {
		return nil
	}
	var devs []string
	var sites []string
	for i, ch := range x.Choices {
		if ch != 0 {
			devs = append(devs, fmt.Sprintf("%s:%d", x.Questions[i].Site, ch))
			s := x.Questions[i].Site
			if j := strings.Index(s, "@"); j >= 0 {
				s = s[:j]
			}
			sites = append(sites, s)
		}
	}
	cs := make([]string, len(x.Choices))
	for i, ch := range x.Choices {
		cs[i] = fmt.Sprint(ch)
	}
	return &core.Violation{Sig: "C15/" + kind + "/" + strings.Join(uniqStrings(sites), "+"), Desc: fmt.Sprintf("Search(%q, %s) with map orders %v", expr, docText, devs),
		Point:    map[string]any{"expr": expr, "doc": docText, "choices": strings.Join(cs, ","), "strict": strict},
		Expected: "the outcome under sorted member order: " + base.Short(), Actual: o.Short()}
}

func uniqStrings(ss []string) []string {
	seen := map[string]bool{}
	var out []string
	for _, s := range ss {
		if !seen[s] {
			seen[s] = true
			out = append(out, s)
		}
	}
	return out
}

var c15Thorough bool

func c15AllExprs() []string {
	seen := map[string]bool{}
	var out []string
	add := func(e string) {
		if !seen[e] {
			seen[e] = true
			out = append(out, e)
		}
	}
	for _, e := range c15Exprs {
		add(e)
	}
	for _, e := range c15Generated() {
		add(e)
	}
	// lets and multi-selects of the other menus (their order-insensitivity is what the strict comparison decides)
	for i, e := range c19Expressions(false) {
		if (i%23 == 0 || c15Thorough && i%3 == 0) && !strings.Contains(e.Text, "group_by") {
			add(e.Text)
		}
	}
	for _, e := range c18First {
		if !strings.Contains(e, "group_by") {
			add(e)
		}
	}
	for _, e := range c01Expressions(false) {
		// object wildcards are left out here: followed by an index or slice their variation is the permitted one
		if strings.Contains(e.Text, "{k:a,l:b}") && len(e.Text) < 24 && !strings.Contains(strings.ReplaceAll(e.Text, "[*]", ""), "*") {
			add(e.Text)
		}
	}
	return out
}

// order-insensitive numeric consumers of an enumeration, on documents whose numbers are Go floats (binary addition is
// not associative: a sum taken in enumeration order would differ from run to run)
var c15FloatExprs = []string{"sum(values(m))", "avg(values(m))", "sum(m.*)", "sum(*.x)", "avg(deep.*.x)", "sum(values(n))", "max(values(m))", "min(m.*)", "sort(values(m))", "sum(values(merge(m, n)))", "sum(items(m)[*][1])",
	"sum(values(m)) == sum(values(m))", "sum(sort(values(m)))", "length(values(m))", "values(m) | sum(@)", "let $s = sum(values(m)) in [$s, $s]"}

// every value lies in [0.1, 1) and every total stays below 1, so that each partial sum of the 34-digit decimal images is
// exact in decimal128 (the order of an inexact summation legitimately shows in the result; C05 has the exactness rule)
var c15FloatDocs = []string{
	`float64:{"m":{"x":0.1,"y":0.2,"z":0.3},"n":{"x":0.125,"w":0.25},"deep":{"p":{"x":0.1},"q":{"x":0.2},"r":{"x":0.3}},"x":{"x":0.1},"y":{"x":0.2},"z":{"x":0.3}}`,
	`float64:{"m":{"a":0.1,"b":0.3,"c":0.4,"d":0.125},"n":{"a":0.1,"b":0.7},"deep":{"p":{"x":0.7},"q":{"x":0.1},"r":{"x":0.125}},"x":{"x":0.4},"y":{"x":0.3}}`,
}

func c15Pairs() [][2]string {
	var out [][2]string
	for _, e := range c15FloatExprs {
		for _, d := range c15FloatDocs {
			out = append(out, [2]string{e, d})
		}
	}
	bigDoc := `{"m":{"x":1,"y":2},"big":` + c15Big(700) + `}`
	for _, e := range c15AllExprs() {
		if strings.Contains(e, "big") {
			out = append(out, [2]string{e, bigDoc})
			continue
		}
		for _, d := range c15Docs() {
			out = append(out, [2]string{e, d})
		}
	}
	return out
}

func c15Run(r *core.Run) {
	if !verifrt.Instrumented {
		r.InternalError("C15 needs the instrumented build")
		return
	}
	c15SetTier(r)
	r.Bound("expressions", len(c15AllExprs()))
	r.Bound("documents", len(c15Docs()))
	r.Bound("map_range_sites", verifrt.MapSites)
	r.Bound("sites_not_under_the_seam", verifrt.SkippedSites)
	r.Bound("execution_cap_per_pair", c15Cap)
	for i, p := range c15Pairs() {
		if !r.Mine(i) {
			continue
		}
		if r.Expired() {
			return
		}
		r.Begin(map[string]any{"expr": p[0], "doc": p[1]})
		if v := c15Explore(r, p[0], p[1]); v != nil {
			r.Violate(v)
		}
		if i%7 == 0 {
			r.Sample(func() any { return map[string]any{"expr": p[0], "doc": trunc(p[1], 80)} })
		}
	}
}

func c15SetTier(r *core.Run) {
	c15Thorough = r.Thorough()
	c15Cap = 4000
	if c15Thorough {
		c15Cap = 100000
	}
}

// c15RunPristine repeats every point under Go's own randomised map iteration.
func c15RunPristine(r *core.Run) {
	c15SetTier(r)
	reps := 12
	if r.Thorough() {
		reps = 60
	}
	r.Bound("runtime_repetitions", reps)
	for i, p := range c15Pairs() {
		if !r.Mine(i) {
			continue
		}
		c := prepareImplCached(p[0])
		enumerating := false
		for _, k := range []string{"*", "keys(", "values(", "items("} {
			if strings.Contains(p[0], k) {
				enumerating = true
			}
		}
		var base core.Obs
		for k := 0; k < reps; k++ {
			d := c15Doc(p[1]) // a freshly built document: new maps, new layout
			var o core.Obs
			if k%2 == 0 {
				o = c.run(d.Raw)
			} else {
				o = core.Search(p[0], d.Raw) // fresh compilation
			}
			r.Add("evaluations", 1)
			r.Add("transitions", 1)
			if k == 0 {
				base = o
				continue
			}
			if base.Kind == "err" && o.Kind == "err" {
				continue
			}
			same := base.Key() == o.Key()
			if !same && enumerating && base.Kind == "ok" && o.Kind == "ok" {
				same = sortedEqual(base.Val, o.Val)
			}
			if !same {
				r.Violate(&core.Violation{Sig: "C15/runtime-order/" + fnOf(p[0]), Desc: fmt.Sprintf("repeated Search(%q, %s)", p[0], p[1]),
					Point: map[string]any{"expr": p[0], "doc": p[1], "runtime": true}, Expected: "the first outcome: " + base.Short(), Actual: o.Short()})
				break
			}
		}
	}
}

// c15EarlierPoint: the outcome of an expression must not depend on which other expressions the process has evaluated
// before it - in particular not on texts that differ from it only inside a quoted token or only in layout. Both entry
// points are driven: Search after Search, and Compile after Compile; the oracle is the reference interpreter.
func c15EarlierPoint(r *core.Run, first, second string, di int) *core.Violation {
	d := c06PairDocs()[di]
	norm := core.Norm(d)
	want := ref.Eval(second, norm)
	if want.U != "" {
		r.AbstainOn(want.U)
		return nil
	}
	mk := func(route string, o core.Obs) *core.Violation {
		return &core.Violation{Sig: "C15/outcome-depends-on-earlier-expression/" + route + "/" + fnOf(second), Desc: fmt.Sprintf("%s(%q) after %s(%q) on document %d", route, second, route, first, di),
			Point: map[string]any{"earlier": true, "first": first, "second": second, "di": fmt.Sprint(di), "expr": second, "doc": "after " + first}, Expected: want.String(), Actual: o.Short()}
	}
	core.Search(first, d)
	o := core.Search(second, d)
	r.Eval(o)
	r.Add("transitions", 2)
	if k := ref.Diff(o, want); k != "" {
		return mk("Search", o)
	}
	core.Compile(first)
	if e, co := core.Compile(second); e != nil {
		o2 := core.ExprSearch(e, d)
		r.Add("evaluations", 1)
		if k := ref.Diff(o2, want); k != "" {
			return mk("Compile", o2)
		}
	} else if k := ref.Diff(co, want); k != "" {
		return mk("Compile", co)
	}
	return nil
}

func c15RunEarlier(r *core.Run) {
	if bad := refSelfCheck(); bad != "" {
		r.InternalError(bad)
		return
	}
	n := 0
	for _, fam := range c06Families {
		for _, first := range fam {
			for _, second := range fam {
				if first == second {
					continue
				}
				n++
				if !r.Mine(n) {
					continue
				}
				r.Add("states", 1)
				for di := range c06PairDocs() {
					r.Begin(map[string]any{"expr": second, "doc": "after " + first})
					if v := c15EarlierPoint(r, first, second, di); v != nil {
						r.Violate(v)
					}
				}
			}
		}
	}
}

func c15Judge(r *core.Run, phase string, pt map[string]any) *core.Violation {
	c15SetTier(r)
	if pbool(pt, "otherdoc") {
		return c15OtherDocPoint(r, pstr(pt, "expr"), pstr(pt, "d1"), pstr(pt, "d2"))
	}
	if pbool(pt, "earlier") {
		var di int
		fmt.Sscan(pstr(pt, "di"), &di)
		return c15EarlierPoint(r, pstr(pt, "first"), pstr(pt, "second"), di)
	}
	expr, docText := pstr(pt, "expr"), pstr(pt, "doc")
	if phase == "runtime-order" || pbool(pt, "runtime") {
		// a probabilistic phenomenon: repeat generously
		c := prepareImplCached(expr)
		base := c.run(c15Doc(docText).Raw)
		for k := 0; k < 400; k++ {
			o := c.run(c15Doc(docText).Raw)
			if k%2 == 1 {
				o = core.Search(expr, c15Doc(docText).Raw) // a fresh compilation, as in the phase itself
			}
			if base.Kind == "err" && o.Kind == "err" {
				continue
			}
			if base.Key() != o.Key() && !(base.Kind == "ok" && o.Kind == "ok" && sortedEqual(base.Val, o.Val)) {
				return &core.Violation{Sig: "C15/runtime-order/" + fnOf(expr), Desc: "repeated Search", Point: pt, Expected: base.Short(), Actual: o.Short()}
			}
		}
		return nil
	}
	var prefix []int
	for _, s := range strings.Split(pstr(pt, "choices"), ",") {
		var k int
		if _, err := fmt.Sscan(s, &k); err == nil {
			prefix = append(prefix, k)
		}
	}
	if pbool(pt, "repeat") {
		return c15Explore(r, expr, docText)
	}
	c := prepareImplCached(expr)
	d := c15Doc(docText)
	base := c15Execute(c, d.Raw, nil)
	x := c15Execute(c, d.Raw, prefix)
	return c15Compare(expr, docText, base.Obs, x, pbool(pt, "strict"))
}
