package props

import (
	"encoding/json"
	"fmt"
	"runtime"
	"strings"
	"time"

	"github.com/woodsbury/jmespath/internal/verifmc/core"
	"github.com/woodsbury/jmespath/internal/verifrt"
)

// C09, phase "all-texts": every call terminates - also for texts outside the grammar. Every string of at most L symbols
// of the scanner alphabet, and every sequence of at most three tokens (every token kind, joined by blanks), goes through
// Search under the deterministic iteration budget: a scanner or parser loop that stops consuming input runs into it.
func c09RunTexts(r *core.Run) {
	if !verifrt.Instrumented {
		r.InternalError("C09 needs the instrumented build")
		return
	}
	L := 3
	if r.Thorough() {
		L = 4
	}
	r.Bound("all_texts_max_symbols", L)
	r.Bound("all_texts_token_kinds", len(c04TokenTexts))
	n := 0
	try := func(s string) {
		n++
		if !r.Mine(n>>6) || r.Expired() {
			return
		}
		r.Begin(map[string]any{"expr": s, "doc": "null"})
		r.Add("states", 1)
		if v := c09TextPoint(r, s); v != nil {
			r.Violate(v)
		}
	}
	var rec func(s string, l int)
	rec = func(s string, l int) {
		try(s)
		if l == L {
			return
		}
		for _, ch := range c04Alphabet {
			rec(s+ch, l+1)
		}
	}
	rec("", 0)
	toks := append([]string{}, c04TokenTexts...)
	toks = append(toks, "+", "-", "/", "//", "%", "let", "in", "abs", "[*]", ".*", "[0]", "[:]")
	for _, a := range toks {
		for _, b := range toks {
			try(a + " " + b)
			try(a + b)
			for _, c := range toks {
				try(a + " " + b + " " + c)
				if r.Thorough() {
					try(a + b + c)
					try("x[?" + a + " " + b + " " + c + "]")
					try("f(" + a + " " + b + " " + c + ")")
				}
			}
		}
	}
}

func c09TextPoint(r *core.Run, s string) *core.Violation {
	core.EnableTicks(200000)
	var c c09Cost
	c.Obs = core.Search(s, nil)
	c.Ticks = core.LastTicks()
	r.Eval(c.Obs)
	r.Add("transitions", 1)
	if c.Obs.Kind == "budget" || c.Ticks > int64(c09TickFactor)*int64(len(s)+8)*8+c09TickSlack {
		return &core.Violation{Sig: "C09/runaway-loop/all-texts/" + c.Obs.Kind, Desc: fmt.Sprintf("Search(%q, null)", s),
			Point: map[string]any{"expr": s, "doc": "null", "family": "all-texts", "kind": "text"}, Expected: "returns (a value or an error) after a number of steps bounded by the length of the text",
			Actual: fmt.Sprintf("%s after %d loop iterations and function entries", c.Obs.Kind, c.Ticks)}
	}
	return nil
}

// C09, phase "after-a-large-call": the cost of a call is bounded by the sizes of *its own* expression, document and
// result - not by those of an earlier call of the same process. For every construct of the menu a small probe is timed
// (the minimum over 31 runs), the same construct is then run once over a document of 2^20 (2^18) elements, and the
// probe is timed again. Only a slow-down by more than a factor of 50 *and* of more than 200 microseconds in the minimum
// counts (a minimum over 31 runs is not moved by scheduling noise: noise only ever adds).
type c09After struct {
	Name string
	Expr string
	Big  int
	Elem func(i int) any
}

func c09AfterMenu(thorough bool) []c09After {
	big, mid := 1<<20, 1<<18
	if thorough {
		big, mid = 1<<21, 1<<19
	}
	num := func(i int) any { return json.Number(fmt.Sprint((i * 7919) % 100003)) }
	str := func(i int) any { return fmt.Sprintf("s%06d", (i*7919)%100003) }
	obj := func(i int) any { return map[string]any{"k": json.Number(fmt.Sprint((i * 7919) % 100003)), "s": fmt.Sprintf("s%d", i%977)} }
	arr := func(i int) any { return []any{json.Number(fmt.Sprint(i)), "x"} }
	return []c09After{
		{"sort_by-number", "sort_by(a, &k)", big, obj}, {"sort_by-string", "sort_by(a, &s)", big, obj}, {"sort-number", "sort(a)", big, num}, {"sort-string", "sort(a)", big, str},
		{"max_by", "max_by(a, &k)", big, obj}, {"min_by", "min_by(a, &s)", big, obj}, {"group_by", "group_by(a, &s)", mid, obj}, {"map", "map(&k, a)", big, obj},
		{"project", "a[*].k", big, obj}, {"filter", "a[?k > `50000`].s", big, obj}, {"flatten", "a[]", big, arr}, {"reverse", "reverse(a)", big, num}, {"slice", "a[::2]", big, num},
		{"join", "join(',', a)", big, str}, {"max", "max(a)", big, num}, {"sum", "sum(a)", big, num}, {"to_string", "to_string(a)", mid, num}, {"keys-of-merge", "length(merge(a[0], a[1]))", 2, func(i int) any { return map[string]any{"k": "v"} }},
		{"multi-select", "a[*].[k, s]", mid, obj}, {"hash", "a[*].{x: k, y: s}", mid, obj}, {"let", "let $v = a in $v[*].k", big, obj}, {"pipe", "a[*].k | [?@ > `1`] | length(@)", big, obj},
		{"zip", "zip(a, a)", mid, num}, {"contains", "contains(a, `-1`)", big, num}, {"equal", "a == a", mid, num}, {"not_null", "not_null(a[*].missing, a)[0]", big, obj},
	}
}

func c09RunAfter(r *core.Run) {
	menu := c09AfterMenu(r.Thorough())
	r.Bound("after_a_large_call_constructs", len(menu))
	for i, m := range menu {
		if !r.Mine(i) || r.Expired() {
			continue
		}
		r.Begin(map[string]any{"expr": "after:" + m.Name, "doc": "", "kind": "after", "family": "after-a-large-call"})
		r.Add("states", 1)
		if v := c09AfterPoint(r, m); v != nil {
			r.Violate(v)
		}
	}
}

func c09MinTime(expr string, d any, runs int) time.Duration {
	best := time.Duration(1 << 62)
	for i := 0; i < runs; i++ {
		t0 := time.Now()
		core.Search(expr, d)
		if dt := time.Since(t0); dt < best {
			best = dt
		}
	}
	return best
}

func c09AfterPoint(r *core.Run, m c09After) *core.Violation {
	core.EnableTicks(0)
	small := map[string]any{"a": c09Array(3, m.Elem)}
	before := c09MinTime(m.Expr, small, 31)
	large := map[string]any{"a": c09Array(m.Big, m.Elem)}
	o := core.Search(m.Expr, large)
	r.Eval(o)
	large = nil
	runtime.GC() // the collection of the large document must not overlap the second measurement
	after := c09MinTime(m.Expr, small, 31)
	r.Add("transitions", 63)
	if after > 50*before+200*time.Microsecond {
		return &core.Violation{Sig: "C09/cost-depends-on-an-earlier-call/" + m.Name, Desc: fmt.Sprintf("Search(%q) on 3 elements, before and after one Search of the same expression on %d elements", m.Expr, m.Big),
			Point: map[string]any{"expr": "after:" + m.Name, "doc": "", "kind": "after", "family": "after-a-large-call"}, Expected: fmt.Sprintf("about the %v of the first measurement (minimum of 31 runs)", before),
			Actual: fmt.Sprintf("%v (minimum of 31 runs) after the large call", after)}
	}
	return nil
}

func c09MoreJudge(r *core.Run, pt map[string]any) (*core.Violation, bool) {
	switch pstr(pt, "kind") {
	case "text":
		return c09TextPoint(r, pstr(pt, "expr")), true
	case "after":
		name := strings.TrimPrefix(pstr(pt, "expr"), "after:")
		for _, m := range c09AfterMenu(r.Thorough()) {
			if m.Name == name {
				return c09AfterPoint(r, m), true
			}
		}
		return nil, true
	}
	return nil, false
}
