package props

import (
	"encoding/json"
	"fmt"
	"strings"
	"unicode/utf16"

	"github.com/woodsbury/jmespath/internal/verifmc/core"
)

// C16 — every string and key can be written literally and decodes to itself
// (form G; round trip, oracle = the string itself).

var c16Alphabet = []string{"a", "'", `"`, "`", `\`, "/", " ", "\n", "\t", "\x01", "é", "€", "😀", "�", "u", "0", "n", "b"}

func c16Runes(s string) []rune { return []rune(s) }

func c16U(r rune) string {
	if r > 0xFFFF {
		a, b := utf16.EncodeRune(r)
		return fmt.Sprintf(`\u%04X\u%04x`, a, b)
	}
	return fmt.Sprintf(`\u%04x`, r)
}

// jsonBody spells the inside of a JSON string. style: 0 minimal, 1 every
// character as \uXXXX, 2 short escapes wherever JSON has one.
func c16JSONBody(s string, style int) string {
	var b strings.Builder
	for _, r := range s {
		switch {
		case style == 1:
			b.WriteString(c16U(r))
		case r == '"':
			b.WriteString(`\"`)
		case r == '\\':
			b.WriteString(`\\`)
		case r == '\n':
			b.WriteString(`\n`)
		case r == '\t':
			b.WriteString(`\t`)
		case r < 0x20:
			b.WriteString(c16U(r))
		case r == '/' && style == 2:
			b.WriteString(`\/`)
		default:
			b.WriteRune(r)
		}
	}
	return b.String()
}

type c16Spelling struct {
	Name string
	Expr string
	Doc  string // JSON text of the document
	Want string // JSON text of the expected result
}

func c16Spellings(s string) []c16Spelling {
	var out []c16Spelling
	js, _ := json.Marshal(s)
	want := string(js)
	// raw strings
	esc := strings.NewReplacer(`\`, `\\`, `'`, `\'`).Replace(s)
	out = append(out, c16Spelling{"raw/escaped", "'" + esc + "'", "null", want})
	// leave a backslash unescaped wherever the grammar preserves it
	var lazy strings.Builder
	rs := c16Runes(s)
	canLazy := false
	for i, r := range rs {
		switch {
		case r == '\'':
			lazy.WriteString(`\'`)
		case r == '\\' && i+1 < len(rs) && rs[i+1] != '\'' && rs[i+1] != '\\':
			lazy.WriteRune(r)
			canLazy = true
		case r == '\\':
			lazy.WriteString(`\\`)
		default:
			lazy.WriteRune(r)
		}
	}
	if canLazy {
		out = append(out, c16Spelling{"raw/preserved-backslash", "'" + lazy.String() + "'", "null", want})
	}
	// JSON literals
	for style, name := range []string{"minimal", "unicode-escapes", "short-escapes"} {
		body := strings.ReplaceAll(c16JSONBody(s, style), "`", "\\`")
		out = append(out, c16Spelling{"json/" + name, "`\"" + body + "\"`", "null", want})
		if style == 0 {
			out = append(out, c16Spelling{"json/in-array", "`[\"" + body + "\", 1]`", "null", "[" + want + ",1]"})
			out = append(out, c16Spelling{"json/spaced", "` \"" + body + "\"\n`", "null", want})
		}
	}
	// quoted identifiers: the key s of a document, and a multi-select hash key
	docText := "{" + want + ":1}"
	for style, name := range []string{"minimal", "unicode-escapes", "short-escapes"} {
		body := c16JSONBody(s, style)
		out = append(out, c16Spelling{"quoted/" + name, `"` + body + `"`, docText, "1"})
		if style == 0 {
			out = append(out, c16Spelling{"quoted/hash-key", `{"` + body + "\": `1`}", "{}", docText})
			out = append(out, c16Spelling{"quoted/after-dot", `@."` + body + `"`, docText, "1"})
		}
	}
	return out
}

func init() {
	core.Register(&core.Check{
		ID:    "C16",
		Title: "every string and key can be written literally and decodes to itself",
		Rule: "every string up to the stated length over the 18-symbol alphabet (quotes, backslash, backtick, slash, space, LF, TAB, U+0001, 2-, 3- and 4-byte characters, U+FFFD, letters that look like escapes) is written in every spelling the grammar allows " +
			"(raw string with escaped and with preserved backslashes; JSON literal minimal / all \\\\uXXXX incl. surrogate pairs / short escapes, inside an array, with JSON whitespace; quoted identifier in three spellings as a key, after a dot and as a multi-select hash key) " +
			"and must compile and evaluate to exactly that string or select exactly that member; every JSON value of depth <= 2 over the number/string spelling alphabet is written between backticks and must evaluate to that value with the number text preserved; " +
			"non-trivial = a non-empty string; distinct_nontrivial counts distinct strings among them",
		Phases:      []core.Phase{{Name: "roundtrip", Build: "pristine", Fn: c16Run}},
		Judge:       c16Judge,
		Assumptions: []string{"the escaping rules are those of the grammar: \\' and \\\\ in raw strings, JSON escapes in quoted identifiers and JSON literals, \\` for a backtick inside a literal"},
	})
}

func c16CheckSpelling(r *core.Run, s string, sp c16Spelling) *core.Violation {
	d := mkDoc(sp.Doc)
	o := core.Search(sp.Expr, d.Raw)
	r.Eval(o)
	r.Add("transitions", 1)
	want := core.Norm(core.JSONDoc(sp.Want))
	if o.Kind == "ok" && core.EqualFast(o.Val, want) {
		return nil
	}
	kind := "wrong-value"
	if o.Kind != "ok" {
		kind = o.Kind + ":" + strings.Join(o.Cats, "+")
	}
	return &core.Violation{Sig: "C16/" + sp.Name + "/" + kind + "/" + c16Class(s), Desc: fmt.Sprintf("Search(%q, %s) for the string %q", sp.Expr, sp.Doc, s),
		Point: map[string]any{"s": s, "spelling": sp.Name, "expr": sp.Expr, "doc": sp.Doc, "want": sp.Want}, Expected: "ok " + core.Canon(want), Actual: o.Short()}
}

// c16Class names the characters of s that matter for clustering.
func c16Class(s string) string {
	var parts []string
	for _, p := range []struct{ ch, name string }{{"�", "U+FFFD"}, {"\\", "backslash"}, {"`", "backtick"}, {"'", "quote"}, {`"`, "dquote"}, {"\x01", "control"}, {"\n", "LF"}, {"\t", "TAB"}, {"😀", "astral"}, {"/", "slash"}} {
		if strings.Contains(s, p.ch) {
			parts = append(parts, p.name)
		}
	}
	if len(parts) > 2 {
		parts = parts[:2]
	}
	return strings.Join(parts, "+")
}

// JSON values written between backticks
var c16Atoms = []string{"null", "true", "0", "-0", "1.50", "1e400", "123456789012345678901234567890", "1234567890123456789012345678901234567891", "1.00000000000000000000000000000000000001", "1e-7000", "\"`\"", `"\\"`, `"a"`}

func c16Run(r *core.Run) {
	maxLen := 5
	if r.Thorough() {
		maxLen = 6
	}
	r.Bound("alphabet", c16Alphabet)
	r.Bound("max_length", maxLen)
	n := 0
	var rec func(s string, l int)
	rec = func(s string, l int) {
		n++
		if r.Mine(n) && !r.Expired() {
			r.Add("states", 1)
			for _, sp := range c16Spellings(s) {
				r.Begin(map[string]any{"expr": sp.Expr, "doc": sp.Doc})
				if v := c16CheckSpelling(r, s, sp); v != nil {
					r.Violate(v)
				}
			}
			if n%4001 == 0 {
				r.Sample(func() any {
					return map[string]any{"string": s, "spellings": len(c16Spellings(s)), "first": c16Spellings(s)[0].Expr}
				})
			}
		}
		if l == maxLen {
			return
		}
		for _, ch := range c16Alphabet {
			rec(s+ch, l+1)
		}
	}
	rec("", 0)
	// boundary code points of the UTF-8 and UTF-16 encodings: every string of one or two of them, all spellings
	boundary := []string{"\u007f", "\u0080", "\u07ff", "\u0800", "\ud7ff", "\ue000", "\ufffd", "\ufffe", "\uffff", "\U00010000", "\U000103ff", "\U00010400", "\U0001f600", "\U0010f800", "\U0010fbff", "\U0010fc00", "\U0010ffff", "\\", "'"}
	r.Bound("boundary_code_points", len(boundary))
	bn := 0
	for _, a := range append([]string{""}, boundary...) {
		for _, b := range boundary {
			bn++
			if !r.Mine(bn) {
				continue
			}
			str := a + b
			r.Add("states", 1)
			for _, sp := range c16Spellings(str) {
				r.Begin(map[string]any{"expr": sp.Expr, "doc": sp.Doc})
				if v := c16CheckSpelling(r, str, sp); v != nil {
					r.Violate(v)
				}
			}
		}
	}
	// every code point on its own and between two letters, all spellings (quick: everything below U+3000 and the first and
	// last 64 code points of every block of 4096; thorough: every Unicode scalar value)
	cn := 0
	for c := rune(1); c <= 0x10FFFF; c++ {
		if c >= 0xD800 && c <= 0xDFFF {
			continue
		}
		if !r.Thorough() && c >= 0x3000 && c&0xFFF >= 64 && c&0xFFF < 0xFC0 {
			continue
		}
		cn++
		if !r.Mine(cn / 32) {
			continue
		}
		if cn%4096 == 0 && r.Expired() {
			break
		}
		for _, str := range []string{string(c), "a" + string(c) + "b"} {
			r.Add("states", 1)
			for _, sp := range c16Spellings(str) {
				r.Begin(map[string]any{"expr": sp.Expr, "doc": sp.Doc})
				if v := c16CheckSpelling(r, str, sp); v != nil {
					r.Violate(v)
				}
			}
		}
	}
	// lone surrogate escapes followed by a tail: the decoder may reject the identifier or substitute U+FFFD,
	// but it must not swallow or reinterpret the characters that follow
	tailAlpha := []string{"a", "u", "0", "4", "1", "D", "E", `\\`, `\u`, `\uDE00`, "x"}
	tailLen := 5
	if r.Thorough() {
		tailLen = 6
	}
	r.Bound("lone_surrogate_tail_alphabet", tailAlpha)
	r.Bound("lone_surrogate_tail_length", tailLen)
	m := 0
	var tails func(t string, l int)
	tails = func(t string, l int) {
		m++
		if r.Mine(m) && !r.Expired() {
			if v := c16CheckLone(r, t); v != nil {
				r.Violate(v)
			}
		}
		if l == tailLen {
			return
		}
		for _, ch := range tailAlpha {
			tails(t+ch, l+1)
		}
	}
	tails("", 0)
	// JSON values
	vals := jsonDocs(c16Atoms, []string{"k", "`"}, 2, 2)
	r.Bound("json_values", len(vals))
	for i, v := range vals {
		if !r.Mine(i) {
			continue
		}
		for _, ws := range []string{"", "all", "leading", "trailing"} {
			if viol := c16CheckValue(r, v, ws); viol != nil {
				r.Violate(viol)
			}
		}
	}
	// deep and long JSON values: arrays and objects nested n deep, strings and keys made of n structural characters,
	// n-element arrays, n-digit numbers - for every n up to 70 and around every power of two up to 4096
	big := c16BigValues()
	r.Bound("deep_and_long_json_values", len(big))
	for i, v := range big {
		if !r.Mine(i) || r.Expired() {
			continue
		}
		if viol := c16CheckValue(r, v, ""); viol != nil {
			r.Violate(viol)
		}
	}
}

func c16BigValues() []string {
	var sizes []int
	for n := 1; n <= 70; n++ {
		sizes = append(sizes, n)
	}
	sizes = append(sizes, 100, 127, 128, 129, 200, 255, 256, 257, 511, 512, 513, 1000, 1023, 1024, 1025, 4095, 4096, 4097)
	rep := strings.Repeat
	var out []string
	for _, n := range sizes {
		out = append(out, rep("[", n)+"1"+rep("]", n), rep(`{"a":`, n)+"null"+rep("}", n), rep(`[{"k":`, n)+`"x"`+rep("}]", n), "["+rep("[],", n)+"[]]", "["+rep("1,", n)+"2]",
			`["`+rep("[", n)+`"]`, `["`+rep("]", n)+`"]`, `{"`+rep("{", n)+`":"`+rep("[{", n)+`"}`, `"`+rep("[", n)+`"`, `"`+rep(`\\\"`, n)+`"`, `["`+rep(`\\\\`, n)+`"]`, `{"k":"`+rep("}", n)+`","l":[`+rep("[", n%40)+rep("]", n%40)+`]}`,
			"1"+rep("0", n), "0."+rep("0", n)+"1", "["+rep(`"`+rep("a", n%50)+`",`, n%300)+"0]", `"`+rep("é", n)+`"`, `"`+rep("😀", n)+`"`, `"`+rep(`\u00e9`, n)+`"`, `{"`+rep("k", n)+`":[`+rep("[", n%64)+rep("]", n%64)+`]}`)
	}
	return out
}


func c16CheckValue(r *core.Run, v string, ws string) *core.Violation {
	body := strings.ReplaceAll(v, "`", "\\`")
	switch ws {
	case "all":
		// JSON whitespace around every structural character (the alphabet has no comma or colon inside strings)
		body = " \t" + strings.ReplaceAll(strings.ReplaceAll(body, ",", " ,\n"), ":", " : ") + "\r\n"
	case "leading":
		body = "\n " + body
	case "trailing":
		body = body + " \t"
	}
	expr := "`" + body + "`"
	o := core.Search(expr, nil)
	r.Eval(o)
	r.Add("states", 1)
	r.Add("transitions", 1)
	want := core.JSONDoc(v)
	// numbers kept at full precision: compared by exact value (the carrier and its spelling are free)
	ok := o.Kind == "ok" && core.EqualFast(o.Val, core.Norm(want))
	if ok {
		// the same through a compiled expression, on the document null and on an object
		if e, co := core.Compile(expr); e == nil {
			o, ok = co, false
		} else {
			for _, d := range []any{nil, map[string]any{"a": "b"}} {
				if o2 := core.ExprSearch(e, d); o2.Key() != o.Key() {
					o, ok = o2, false
					break
				}
			}
		}
	}
	if ok {
		return nil
	}
	return &core.Violation{Sig: "C16/json-value/" + o.Kind + "/ws-" + ws, Desc: fmt.Sprintf("Search(%q, null)", expr),
		Point: map[string]any{"value": v, "ws": ws, "expr": expr, "doc": "null"}, Expected: "ok " + core.ToJSONText(want), Actual: o.Short() + " " + core.ToJSONText(o.Raw)}
}

// c16CheckLone judges `"\uD83D<tail>"` as a key: a syntax error, or the member
// named U+FFFD followed by the JSON decoding of the tail.
func c16CheckLone(r *core.Run, tail string) *core.Violation {
	expr := `"\uD83D` + tail + `"`
	var decoded string
	tailValid := json.Unmarshal([]byte(`"`+tail+`"`), &decoded) == nil
	if strings.HasPrefix(tail, `\uDE00`) || strings.HasPrefix(tail, `\uD`) {
		return nil // a genuine pair (covered by the spellings above) or another surrogate: not this family
	}
	name := "\uFFFD" + decoded
	d := map[string]any{name: json.Number("1")}
	if name != "\uFFFD" {
		d["\uFFFD"] = json.Number("2")
	}
	o := core.Search(expr, d)
	core.Compile(expr)
	// the same after a decoded prefix, and other ways of failing half-way through a literal
	for _, bad := range []string{`"pre\n` + `\uD83D` + tail + `"`, `"price\x"`, `"a\tb\u12"`, `"\u0041\uDC00"`, "`\"a\\qb\"`", `'a\'b`, "`[\"ok\", \"a\\x\"]`"} {
		core.Search(bad, d)
		core.Compile(bad)
	}
	r.Eval(o)
	r.Add("states", 1)
	r.Add("transitions", 1)
	// whatever the verdict on this text was, the next literals decode as if nothing had happened before them
	for _, after := range [][3]string{{`"tab\there"`, `{"tab\there":1}`, "1"}, {`"\u0041\\b"`, `{"A\\b":1}`, "1"}, {"`\"x\\ny\"`", "null", `"x\ny"`}, {`{"k\u00e9": @}."k\u00e9"`, `7`, "7"}, {`'it\'s'`, "null", `"it's"`}} {
		ad := mkDoc(after[1])
		ao := core.Search(after[0], ad.Raw)
		ce, _ := core.Compile(after[0])
		var co core.Obs
		if ce != nil {
			co = core.ExprSearch(ce, ad.Raw)
		}
		r.Add("evaluations", 2)
		want := mkDoc(after[2]).Norm
		for _, got := range []core.Obs{ao, co} {
			if got.Kind != "ok" || !core.EqualFast(got.Val, want) {
				return &core.Violation{Sig: "C16/literal-after-a-rejected-identifier", Desc: fmt.Sprintf("Search(%q, %s) right after Search(%q)", after[0], after[1], expr),
					Point: map[string]any{"tail": tail, "expr": after[0], "doc": after[1]}, Expected: "ok " + after[2], Actual: got.Short()}
			}
		}
	}
	if o.Kind == "err" && len(o.Cats) == 1 && o.Cats[0] == "syntax" {
		return nil
	}
	if tailValid && o.Kind == "ok" && core.EqualFast(o.Val, core.Norm(json.Number("1"))) {
		return nil
	}
	exp := "error[syntax]"
	if tailValid {
		exp += " or the member named " + fmt.Sprintf("%q", name)
	}
	return &core.Violation{Sig: "C16/lone-surrogate-escape/" + o.Kind, Desc: fmt.Sprintf("Search(%q, %s)", expr, core.ToJSONText(d)),
		Point: map[string]any{"tail": tail, "expr": expr, "doc": core.ToJSONText(d)}, Expected: exp, Actual: o.Short()}
}

func c16Judge(r *core.Run, phase string, pt map[string]any) *core.Violation {
	if _, ok := pt["tail"]; ok {
		return c16CheckLone(r, pstr(pt, "tail"))
	}
	if v := pstr(pt, "value"); v != "" {
		return c16CheckValue(r, v, pstr(pt, "ws"))
	}
	return c16CheckSpelling(r, pstr(pt, "s"), c16Spelling{Name: pstr(pt, "spelling"), Expr: pstr(pt, "expr"), Doc: pstr(pt, "doc"), Want: pstr(pt, "want")})
}
