package props

import (
	"fmt"
	"strings"

	"github.com/woodsbury/jmespath/internal/verifmc/core"
	"github.com/woodsbury/jmespath/internal/verifmc/ref"
)

// C10 — precedence and associativity (form G, metamorphic; the competing
// grouping is cross-checked against the reference evaluator).

type c10Op struct {
	Text  string
	Level int
}

// the specification's table, loosest to tightest
var c10Ops = []c10Op{
	{"|", 1}, {"||", 2}, {"&&", 3},
	{"==", 5}, {"!=", 5}, {"<", 5}, {"<=", 5}, {">", 5}, {">=", 5},
	{"+", 6}, {"-", 6}, {"−", 6},
	{"*", 7}, {"×", 7}, {"/", 7}, {"÷", 7}, {"//", 7}, {"%", 7},
}

var c10Shapes = []string{"%s", "`2`", "%s.b", "%s[0]", "%s[*].b", "(%s)", "%s.*", "%s[?@]", "%s[1:]", "%s[]", "%s[*]", "%s[].b", "abs(%s)", "[%s][0]", "[0]", "[1:]", "[-1]", "@", "[*]", "*", "%s.\"b\"", "%s[1:].b", "%s[:2].b", "%s[::-1].b", "%s[0].\"b\"", "\"b\"", "%s[?b].\"b\"", "$.%s", "%s.[b][0]", "%s.{k: b}.k"}
var c10Prefixes = []string{"", "!", "-", "−", "+"}

// c10Paren fully parenthesises operands[0] ops[0] operands[1] ... by the
// specification's table (all operators left-associative).
func c10Paren(operands []string, ops []c10Op) string {
	vals := []string{operands[0]}
	var stack []c10Op
	reduce := func() {
		op := stack[len(stack)-1]
		stack = stack[:len(stack)-1]
		r := vals[len(vals)-1]
		l := vals[len(vals)-2]
		vals = append(vals[:len(vals)-2], "("+l+" "+op.Text+" "+r+")")
	}
	for i, op := range ops {
		for len(stack) > 0 && stack[len(stack)-1].Level >= op.Level {
			reduce()
		}
		stack = append(stack, op)
		vals = append(vals, operands[i+1])
	}
	for len(stack) > 0 {
		reduce()
	}
	return vals[0]
}

type c10Case struct {
	Kind string // "pair", "pair-shape", "triple"
	Flat string
	Spec string
	Alt  string // the competing grouping, written with parentheses ("" = none)
	Ops  string
}

func c10Operand(name, shape, prefix string) (flat, wrapped string) {
	body := shape
	if strings.Contains(shape, "%s") {
		body = fmt.Sprintf(shape, name)
	}
	if prefix == "" {
		return body, body
	}
	return prefix + body, "(" + prefix + body + ")"
}

func c10Cases(thorough bool) []c10Case {
	var out []c10Case
	names := []string{"a", "b", "c", "d"}
	for _, o1 := range c10Ops {
		for _, o2 := range c10Ops {
			ops := []c10Op{o1, o2}
			mk := func(kind string, fl, wr []string) {
				flat := fl[0] + " " + o1.Text + " " + fl[1] + " " + o2.Text + " " + fl[2]
				spec := c10Paren(wr, ops)
				left := "((" + wr[0] + " " + o1.Text + " " + wr[1] + ") " + o2.Text + " " + wr[2] + ")"
				right := "(" + wr[0] + " " + o1.Text + " (" + wr[1] + " " + o2.Text + " " + wr[2] + "))"
				alt := left
				if spec == left {
					alt = right
				}
				out = append(out, c10Case{Kind: kind, Flat: flat, Spec: spec, Alt: alt, Ops: o1.Text + " " + o2.Text})
			}
			mk("pair", names[:3], names[:3])
			for pos := 0; pos < 3; pos++ {
				for _, sh := range c10Shapes {
					for _, pf := range c10Prefixes {
						if sh == "%s" && pf == "" {
							continue
						}
						fl := append([]string{}, names[:3]...)
						wr := append([]string{}, names[:3]...)
						fl[pos], wr[pos] = c10Operand(names[pos], sh, pf)
						mk("pair-shape", fl, wr)
					}
				}
			}
			for _, o3 := range c10Ops {
				ops3 := []c10Op{o1, o2, o3}
				flat := "a " + o1.Text + " b " + o2.Text + " c " + o3.Text + " d"
				out = append(out, c10Case{Kind: "triple", Flat: flat, Spec: c10Paren(names, ops3), Ops: o1.Text + " " + o2.Text + " " + o3.Text})
			}
		}
		// constructs whose body extends as far as possible: the operator stays inside the body
		o := o1.Text
		for _, f := range [][2]string{
			{"let $x = a in $x " + o + " b", "let $x = a in ($x " + o + " b)"},
			{"let $x = a in b " + o + " $x", "let $x = a in (b " + o + " $x)"},
			{"let $x = a in b " + o + " c " + o + " $x", "let $x = a in ((b " + o + " c) " + o + " $x)"},
			{"let $x = a " + o + " b in [$x, c]", "let $x = (a " + o + " b) in [$x, c]"},
			{"let $x = a, $y = b " + o + " c in [$x, $y]", "let $x = a, $y = (b " + o + " c) in [$x, $y]"},
			{"[let $x = a in b " + o + " $x, c]", "[(let $x = a in (b " + o + " $x)), c]"},
			{"let $x = a in let $y = b in c " + o + " [$x, $y][0]", "let $x = a in (let $y = b in (c " + o + " [$x, $y][0]))"},
			{"map(&@ " + o + " c, [a, b])", "map(&(@ " + o + " c), [a, b])"},
			{"map(&c " + o + " @, [a, b])", "map(&(c " + o + " @), [a, b])"},
			{"[a, b][?@ " + o + " c]", "[a, b][?(@ " + o + " c)]"},
			{"[a " + o + " b, c]", "[(a " + o + " b), c]"},
			{"[c, a " + o + " b]", "[c, (a " + o + " b)]"},
			{"{k: a " + o + " b, l: c}", "{k: (a " + o + " b), l: c}"},
			{"not_null(a " + o + " b, c)", "not_null((a " + o + " b), c)"},
			{"not_null(c, a " + o + " b)", "not_null(c, (a " + o + " b))"},
			{"(a " + o + " b)", "a " + o + " b"},
			{"a[?b] " + o + " c", "(a[?b]) " + o + " c"},
			{"`1` " + o + " a " + o + " b", "(`1` " + o + " a) " + o + " b"},
			{"a " + o + " `1` " + o + " b", "(a " + o + " `1`) " + o + " b"},
			{"a " + o + " 'x' " + o + " b", "(a " + o + " 'x') " + o + " b"},
		} {
			out = append(out, c10Case{Kind: "construct", Flat: f[0], Spec: f[1], Ops: o + " in " + strings.NewReplacer("a", "", "b", "", "c", "", o, "").Replace(f[0])})
		}
		// a bracket binds tighter than a unary operator: !a[0] is !(a[0])
		if o1.Text == "|" {
			for _, pf := range c10Prefixes[1:] {
				for _, br := range []string{"[0]", "[-1]", "[1:]", "[*]", "[::-1]", "[0][0]"} {
					out = append(out, c10Case{Kind: "construct", Flat: pf + "a" + br, Spec: pf + "(a" + br + ")", Ops: pf + " before " + br})
					out = append(out, c10Case{Kind: "construct", Flat: pf + "a" + br + " && b", Spec: "(" + pf + "(a" + br + ")) && b", Ops: pf + " before " + br + " &&"})
					out = append(out, c10Case{Kind: "construct", Flat: "[" + pf + "a" + br + ", " + pf + "b" + br + "]", Spec: "[" + pf + "(a" + br + "), " + pf + "(b" + br + ")]", Ops: pf + " before " + br + " in list"})
				}
			}
		}
		// unary operators against every binary operator, on both sides
		for _, pf := range c10Prefixes[1:] {
			out = append(out, c10Case{Kind: "unary", Flat: pf + "a " + o1.Text + " b", Spec: "(" + pf + "a) " + o1.Text + " b", Ops: pf + " " + o1.Text})
			out = append(out, c10Case{Kind: "unary", Flat: "a " + o1.Text + " " + pf + "b", Spec: "a " + o1.Text + " (" + pf + "b)", Ops: o1.Text + " " + pf})
			out = append(out, c10Case{Kind: "unary", Flat: pf + pf + "a " + o1.Text + " b", Spec: "(" + pf + "(" + pf + "a)) " + o1.Text + " b", Ops: pf + pf + " " + o1.Text})
		}
	}
	return out
}

func c10Docs(values []string, nvars int) []doc {
	names := []string{"a", "b", "c", "d"}[:nvars]
	var out []doc
	var rec func(i int, parts []string)
	rec = func(i int, parts []string) {
		if i == len(names) {
			out = append(out, mkDoc("{"+strings.Join(parts, ",")+"}"))
			return
		}
		for _, v := range values {
			rec(i+1, append(parts[:len(parts):len(parts)], `"`+names[i]+`":`+v))
		}
	}
	rec(0, nil)
	return out
}

var c10Values = []string{"0", "1", "2", "3", "-7", "null", "true", "false", `"s"`, "[1]", `{"b":2}`, "9e6144", "-9e6144", "1e3100", "1e-3100"}
var c10ValuesSmall = []string{"0", "2", "3", "-7", "null", "true", `[{"b":2},0]`, `{"b":2}`}
var c10ValuesTriple = []string{"1", "2", "3", "-7", "null", "false"}

func init() {
	core.Register(&core.Check{
		ID:    "C10",
		Title: "operators bind with the specified precedence and associate to the left",
		Rule: "all 18x18 ordered pairs (and 18^3 triples) of binary operator spellings, each operand position varied over the operand shapes and unary prefixes, and every operator inside each body-extending construct (let body and bindings, expression reference, filter, multi-select, argument), are evaluated flat and with the parentheses the specification's table implies, " +
			"on every assignment of the operand variables from the value alphabet; the two outcomes of the implementation must be equal, and the competing grouping written with parentheses must agree with the reference evaluator; " +
			"non-trivial = a non-null, non-empty, non-error value; distinct_nontrivial counts distinct such outcomes",
		Phases: []core.Phase{{Name: "grouping", Build: "instr", Fn: c10Run}},
		Judge:  c10Judge,
		Assumptions: []string{
			"the grouping demanded is the specification's table: pipe < or < and < comparison < additive < multiplicative, all left-associative, unary operators tighter than every binary operator",
			"the relative power of `!` and the selector `.` is reported, not judged (property prose and reference implementations differ)",
		},
	})
}

type c10Prepared struct {
	specRef *compiled
	c    c10Case
	flat *compiled
	spec *compiled
	alt  *compiled
}

func c10Prepare(c c10Case) *c10Prepared {
	p := &c10Prepared{c: c, flat: prepareImpl(c.Flat), spec: prepareImpl(c.Spec)}
	if c.Alt != "" {
		p.alt = prepare(c.Alt)
		p.specRef = prepare(c.Spec)
	}
	return p
}

func (p *c10Prepared) check(r *core.Run, d doc) *core.Violation {
	f := p.flat.run(d.Raw)
	s := p.spec.run(d.Raw)
	r.Eval(f)
	r.Add("evaluations", 1)
	r.Add("transitions", 1)
	if f.Key() != s.Key() {
		return &core.Violation{
			Sig:      "C10/grouping/" + p.c.Kind + "/" + p.c.Ops,
			Desc:     fmt.Sprintf("Search(%q) vs Search(%q) on %s", p.c.Flat, p.c.Spec, d.Text),
			Point:    map[string]any{"kind": p.c.Kind, "flat": p.c.Flat, "spec": p.c.Spec, "alt": p.c.Alt, "ops": p.c.Ops, "doc": d.Text, "expr": p.c.Flat},
			Expected: "the outcome of the specified grouping: " + s.Short(),
			Actual:   f.Short(),
		}
	}
	if p.specRef != nil {
		// the fully parenthesised spelling means what its parentheses say (a rewrite that treats both spellings alike
		// is invisible to the comparison above)
		if want := p.specRef.refEval(d.Norm); want.U == "" {
			if k := ref.Diff(s, want); k != "" {
				return &core.Violation{
					Sig:      "C10/parenthesised-grouping/" + k + "/" + p.c.Ops,
					Desc:     fmt.Sprintf("Search(%q, %s)", p.c.Spec, d.Text),
					Point:    map[string]any{"kind": p.c.Kind, "flat": p.c.Flat, "spec": p.c.Spec, "alt": p.c.Alt, "ops": p.c.Ops, "doc": d.Text, "expr": p.c.Spec},
					Expected: want.String(),
					Actual:   s.Short(),
				}
			}
		}
	}
	if p.alt != nil {
		a := p.alt.run(d.Raw)
		r.Add("evaluations", 1)
		if a.Key() != s.Key() {
			r.Add("documents_distinguishing_the_groupings", 1)
		}
		want := p.alt.refEval(d.Norm)
		if want.U != "" {
			r.Add("oracle_abstained", 1)
			return nil
		}
		r.Add("oracle_determinate", 1)
		if k := ref.Diff(a, want); k != "" {
			return &core.Violation{
				Sig:      "C10/parentheses-override/" + k + "/" + p.c.Ops,
				Desc:     fmt.Sprintf("Search(%q, %s)", p.c.Alt, d.Text),
				Point:    map[string]any{"kind": p.c.Kind, "flat": p.c.Flat, "spec": p.c.Spec, "alt": p.c.Alt, "ops": p.c.Ops, "doc": d.Text, "expr": p.c.Alt},
				Expected: want.String(),
				Actual:   a.Short(),
			}
		}
	}
	return nil
}

func c10Run(r *core.Run) {
	cases := c10Cases(r.Thorough())
	full := c10Docs(c10Values, 3)
	small := c10Docs(c10ValuesSmall, 3)
	triple := c10Docs(c10ValuesTriple, 4)
	if r.Thorough() {
		small = full
		triple = c10Docs(c10Values[:8], 4)
	}
	r.Bound("cases", len(cases))
	r.Bound("operators", len(c10Ops))
	r.Bound("operand_shapes", c10Shapes)
	r.Bound("unary_prefixes", c10Prefixes)
	r.Bound("documents_pairs", len(full))
	r.Bound("documents_shapes", len(small))
	r.Bound("documents_triples", len(triple))
	distinguished := map[string]bool{}
	seenPairs := map[string]bool{}
	for n, c := range cases {
		if !r.Mine(n) {
			continue
		}
		if r.Expired() {
			break
		}
		docs := small
		switch c.Kind {
		case "pair", "unary", "construct":
			docs = full
		case "triple":
			docs = triple
		}
		p := c10Prepare(c)
		r.Add("states", 1)
		before := r.C["documents_distinguishing_the_groupings"]
		for di, d := range docs {
			r.Begin(map[string]any{"expr": c.Flat, "doc": d.Text})
			if v := p.check(r, d); v != nil {
				r.Violate(v)
			}
			if di%257 == 0 {
				r.Sample(func() any {
					return map[string]any{"flat": c.Flat, "specified_grouping": c.Spec, "competing_grouping": c.Alt, "doc": d.Text}
				})
			}
		}
		if c.Kind == "pair" {
			seenPairs[c.Ops] = true
			if r.C["documents_distinguishing_the_groupings"] > before {
				distinguished[c.Ops] = true
			}
		}
	}
	r.Add("operator_pairs_explored", int64(len(seenPairs)))
	r.Add("operator_pairs_with_a_distinguishing_document", int64(len(distinguished)))
}

func c10Judge(r *core.Run, phase string, pt map[string]any) *core.Violation {
	c := c10Case{Kind: pstr(pt, "kind"), Flat: pstr(pt, "flat"), Spec: pstr(pt, "spec"), Alt: pstr(pt, "alt"), Ops: pstr(pt, "ops")}
	return c10Prepare(c).check(r, mkDoc(pstr(pt, "doc")))
}
