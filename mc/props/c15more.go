package props

import (
	"fmt"

	"github.com/woodsbury/jmespath/internal/verifmc/core"
)

// C15, phase "other-document-first": the outcome on a document does not depend on which document the same compiled
// Expression was applied to before. For every expression of the menu (plus expressions that do not mention the data at
// all) and every ordered pair of documents (d1, d2): one compilation, Search(d1), Search(d2); the second outcome must
// equal that of a fresh compilation on an equal document. (Instrumented build: map ranges in sorted order, so equal
// means equal.)

var c15ConstExprs = []string{"{a: `1`, b: 'two'}", "[`1`, 'two']", "`[1,2]`", "'x'", "[`1`]", "{k: 'v'}", "[@, `1`]", "length(`[1,2]`)", "[abs(`-1`), 'x']", "not_null(`null`, 'd')", "[[`1`, `2`], [`3`]]",
	"{p: {q: `1`, r: `2`}, s: 'x'}", "[`1`, `2`][1]", "{a: `1`, b: 'two'}.a", "`1` + `2`", "[`1` + `2`, 'x']", "let $v = `1` in [$v, 'x']", "[`[]`, `{}`]", "{a: `null`, b: `false`}", "[@]", "{k: @}", "[@, @]", "@", "$", "[$, @]"}

var c15OtherDocs = []string{"null", "[]", "1", `"s"`, "{}", `{"a":1}`, "[null]", "false"}

func c15RunOtherDoc(r *core.Run) {
	exprs := append(append([]string{}, c15ConstExprs...), c15AllExprs()...)
	var docs []string
	docs = append(docs, c15OtherDocs...)
	docs = append(docs, c15Docs()...)
	r.Bound("other_document_first_expressions", len(exprs))
	r.Bound("other_document_first_documents", len(docs))
	for i, e := range exprs {
		if !r.Mine(i) || r.Expired() {
			continue
		}
		r.Add("states", 1)
		for i1 := range docs {
			for i2 := range docs {
				r.Begin(map[string]any{"expr": e, "doc": docs[i2] + " after " + docs[i1]})
				if v := c15OtherDocPoint(r, e, docs[i1], docs[i2]); v != nil {
					r.Violate(v)
				}
			}
		}
	}
}

func c15OtherDocPoint(r *core.Run, e, d1, d2 string) *core.Violation {
	ex, co := core.Compile(e)
	if ex == nil {
		_ = co
		return nil
	}
	core.ExprSearch(ex, c15Doc(d1).Raw)
	o := core.ExprSearch(ex, c15Doc(d2).Raw)
	r.Eval(o)
	r.Add("transitions", 2)
	fresh := core.Search(e, c15Doc(d2).Raw)
	if o.Key() != fresh.Key() {
		return &core.Violation{Sig: "C15/outcome-depends-on-earlier-document/" + fnOf(e), Desc: fmt.Sprintf("Compile(%q); Search(%s); Search(%s)", e, trunc(d1, 80), trunc(d2, 80)),
			Point: map[string]any{"otherdoc": true, "expr": e, "d1": d1, "d2": d2, "doc": d2 + " after " + d1}, Expected: "what a fresh compilation yields on an equal document: " + fresh.Short(), Actual: o.Short()}
	}
	return nil
}
