package props

import (
	"fmt"
	"os"
	"strings"
	"sync"

	"github.com/woodsbury/jmespath"
	"github.com/woodsbury/jmespath/internal/verifmc/core"
	"github.com/woodsbury/jmespath/internal/verifmc/sched"
	"github.com/woodsbury/jmespath/internal/verifrt"
)

// C07 — compiled expressions and Search are safe for concurrent use
// (form S: controlled scheduler on the real code).

var c07Exprs = []string{
	"`[3,1,2]`", "sort(`[3,1,2]`)", "reverse(`[3,1,2]`)", "`[[3,1],[2]]`[]", "`[3,1,2]`[*]", "`[3,1,2]`[1:]", "merge(`{\"a\":1}`, o)", "keys(`{\"b\":1,\"a\":2}`)",
	"let $x = a, $y = b in [$x, $y]", "a[*].b[*].c", "a[?b && c].d", "{p: a, q: b, r: c}", "sort_by(arr, &k)", "group_by(arr, &g)", "map(&[@, k], arr)", "arr[1:]", "arr[::-1]", "to_string(@)",
	"sum(longs)", "longs[0] + longs[1]", "sort(longs)", "max(longs) == `323456789012345678`", "longs[*] | [?@ > `200000000000000000`]", "to_number('123456789012345678901') + longs[2]",
	"a[*].[$.b, d]", "map(&$.n, arr)", "arr[?k == $.n || g == $.b]", "map(&[$.s, @.k], arr)", "sort(`[3,1,2,7,5,4,6,0,9,8,11,10,13,12]`)",
	"nested[:2][]", "nested[::2][]", "nested[]", "[nested[0], strs][]", "nested[*][1:]", "reverse(nested[0])", "sort(nested[0])", "join('-', strs)", "join(s, strs)", "to_string(nested)", "merge(o, o)", "zip(nested[0], strs)",
	"let $l = n in arr[?let $s = `10` in k * $s > $l].g", "let $l = b in a[*].[let $s = `1`, $t = 'x' in [$s, $l, $t]]", c07OrChain(300),
	"let $v = b in a[*].[$v, d, $v]", "let $v = n in arr[*].[$v + k, $v]", "pad_left(s, wide)", "pad_right(s, wide)", "pad_left(b, wide) | length(@)",
	"a[?c].d | {n: length(@), items: @}", "arr[*].k | [@, length(@)]", "nested[] | {all: @, n: length(@)}", "let $r = arr[*].g in {r: $r, n: length($r)}", "a[*].d | [@, @]", "arr[?k].g | {x: @} | x",
	"[floor(deci), ceil(deci)]", "q[0] / q[1]", "[floor(deci), q[0] / q[1]]", "avg(q) / `3`", "[ceil(deci), sum(q) / `7`]", "to_number('0.99999999999999999999999999999999999999') | [floor(@), ceil(@)]",
	"n + n * n", "sum(nums) / length(nums)", "arr[*].k | sort(@)", "o.* | sort(@)", "max_by(arr, &k).g", "not_null(missing, a, b)", "join(',', strs)", "split(s, ',')", "a == a && o == o", "[a, b][].b",
}

// spare rebuilds every array with three unused elements of capacity holding sentinels: a write beyond len shows in the
// snapshot of the shared documents.
func spare(v any) any {
	switch x := v.(type) {
	case []any:
		a := make([]any, len(x), len(x)+3)
		for i, e := range x {
			a[i] = spare(e)
		}
		full := a[:cap(a)]
		for i := len(x); i < cap(a); i++ {
			full[i] = fmt.Sprintf("sentinel-%d", i)
		}
		return a
	case map[string]any:
		for k, e := range x {
			x[k] = spare(e)
		}
	}
	return v
}

// c07OrChain: an evaluation as deep as the chain is long (n operands, all missing but the last).
func c07OrChain(n int) string {
	return strings.Repeat("missing || ", n-1) + "b"
}

func c07DocA() any {
	return spare(core.JSONDoc(`{"a":[{"b":[{"c":1},{"c":2}],"c":true,"d":"x"},{"b":[{"c":3}],"c":false,"d":"y"}],"b":"bee","c":3,"o":{"z":1,"y":2},
		"arr":[{"k":3,"g":"p"},{"k":1,"g":"q"},{"k":2,"g":"p"}],"n":2,"nums":[1,2,3.5],"strs":["x","y"],"s":"a,b,c","wide":100,"nested":[[1,2,3],[4],[5]],
		"longs":[123456789012345678,223456789012345678,323456789012345678,1.23456789012345678e30],
		"deci":0.99999999999999999999999999999999999999,"q":[2,3]}`))
}

func c07DocB() any {
	return spare(core.JSONDoc(`{"a":[{"b":[{"c":9}],"c":true,"d":"z"}],"b":null,"c":[1],"o":{"x":7},"arr":[{"k":"b","g":"r"},{"k":"a","g":"r"}],"n":10,"nums":[4],"strs":["p","q","r"],"s":"solo","wide":190,"nested":[[6],[7,8]],"longs":[987654321098765432,887654321098765432,787654321098765432,9.87654321098765432e30],"deci":1.00000000000000000000000000000000000001,"q":[1,7]}`))
}

// c07DocBad makes most expressions of the menu fail half-way (a wrong type after the first elements): the prelude of the
// "after a failure" scenarios.
func c07DocBad() any {
	return spare(core.JSONDoc(`{"a":[{"b":[{"c":1},5],"c":true,"d":"x"},7],"b":[1],"c":"x","o":{"z":[1],"y":"s"},"arr":[{"k":3,"g":"p"},{"k":"x","g":2},{"k":null}],"n":"x","nums":[1,2,"x"],"strs":["x","y",0.5],"s":5,
		"nested":[[1,2,3],4,[5]],"longs":[123456789012345678,"x",true],"deci":"x","q":[1,0]}`))
}

// a scenario: which calls run concurrently
type c07Scenario struct {
	Expr  string
	Calls []string // "E(A)", "E(B)", "S(A)", "S(B)", "C"; "S(A)=<expr>": one-shot Search of another expression
	Pre   []string // calls made one after the other before the concurrent ones start ("S(Bad)", "E(Bad)", ...)
}

const c07Sep = " ; "

// pairs of different expressions that start from the same part of the same document
var c07Pairs = [][2]string{{"nested[:2][]", "nested[::2][]"}, {"nested[]", "nested[:2][]"}, {"sort(nested[0])", "reverse(nested[0])"}, {"join('-', strs)", "join(',', strs)"}, {"sort_by(arr, &k)", "arr[::-1]"},
	{"[nested[0], strs][]", "nested[0][1:]"}, {"merge(o, o)", "o.*"}, {"to_string(nested)", "nested[*][0]"},
	// texts that differ only inside a quoted token, or only in layout
	{"join(' ', strs)", "join('  ', strs)"}, {"length('x y')", "length('x   y')"}, {"split(s, ',')", "split(s,  ',')"}, {"\"a\"", "\"a\" "}, {"pad_left(s, `100`)", "pad_left(s, `190`)"}, {"pad_right(s, `70`)", "pad_left(s, `300`)"}}

func c07Scenarios(thorough bool) []c07Scenario {
	var out []c07Scenario
	shapes := [][]string{{"E(A)", "E(B)"}, {"E(A)", "E(A)"}, {"S(A)", "C"}, {"E(A)", "S(B)"}}
	if thorough {
		shapes = append(shapes, []string{"E(A)", "E(B)", "S(A)"}, []string{"C", "C"}, []string{"E(A)", "E(B)", "C"})
	}
	for _, e := range c07Exprs {
		for _, sh := range shapes {
			out = append(out, c07Scenario{Expr: e, Calls: sh})
		}
		// the same calls after the expression has failed half-way through an evaluation
		out = append(out, c07Scenario{Expr: e, Calls: []string{"E(A)", "E(B)"}, Pre: []string{"E(Bad)", "S(Bad)"}})
		out = append(out, c07Scenario{Expr: e, Calls: []string{"S(A)", "S(B)"}, Pre: []string{"S(Bad)"}})
	}
	for _, p := range c07Pairs {
		out = append(out, c07Scenario{Expr: p[0], Calls: []string{"S(A)", "S(A)=" + p[1]}})
		out = append(out, c07Scenario{Expr: p[0], Calls: []string{"E(A)", "S(A)=" + p[1]}})
		out = append(out, c07Scenario{Expr: p[0], Calls: []string{"S(A)", "S(A)=" + p[1]}, Pre: []string{"S(Bad)", "S(Bad)=" + p[1]}})
		if thorough {
			out = append(out, c07Scenario{Expr: p[0], Calls: []string{"S(A)", "S(A)=" + p[1], "S(B)=" + p[1]}})
		}
	}
	return out
}

type c07World struct {
	expr  *jmespath.Expression
	docA  any
	docB  any
	bad   any
	obs   []core.Obs
	tasks []*sched.Task
}

// c07Saved: the package-level state of the library as it was before its first use in this process; every execution
// starts from it (a library that keeps a cache or a pool would otherwise make the executions depend on each other)
var c07Saved *core.SavedGlobals

func c07Build(sc c07Scenario) *c07World { return c07BuildFor(sc, -1) }

// c07BuildFor builds the world for all calls of the scenario (only < 0) or for call `only` alone. The shared Expression
// is compiled only if a call that will run needs it: a library that remembers what it compiled must not have seen the
// scenario's expression when another call's solo outcome is taken.
func c07BuildFor(sc c07Scenario, only int) *c07World {
	if c07Saved != nil && len(verifrt.UsesSync) > 0 {
		c07Saved.Restore()
	}
	w := &c07World{docA: c07DocA(), docB: c07DocB(), bad: c07DocBad()}
	needs := false
	for i, call := range sc.Calls {
		if (only < 0 || i == only) && strings.HasPrefix(call, "E(") {
			needs = true
		}
	}
	for _, call := range sc.Pre {
		if strings.HasPrefix(call, "E(") {
			needs = true
		}
	}
	if needs || only < 0 {
		w.expr, _ = core.Compile(sc.Expr)
	}
	for _, call := range sc.Pre {
		w.do(sc.Expr, call)
	}
	w.obs = make([]core.Obs, len(sc.Calls))
	for i, call := range sc.Calls {
		i, call := i, call
		w.tasks = append(w.tasks, &sched.Task{ID: i, Fn: func() { w.obs[i] = w.do(sc.Expr, call) }})
	}
	return w
}

func (w *c07World) do(expr, call string) core.Obs {
	if i := strings.Index(call, "="); i > 0 {
		call, expr = call[:i], call[i+1:]
	}
	switch call {
	case "E(A)":
		return core.ExprSearch(w.expr, w.docA)
	case "E(B)":
		return core.ExprSearch(w.expr, w.docB)
	case "E(Bad)":
		return core.ExprSearch(w.expr, w.bad)
	case "S(A)":
		return core.Search(expr, w.docA)
	case "S(B)":
		return core.Search(expr, w.docB)
	case "S(Bad)":
		return core.Search(expr, w.bad)
	}
	e, o := core.Compile(expr)
	if e != nil {
		// what was compiled must mean the same: evaluate it (outside the scheduled region this would be invisible)
		return core.ExprSearch(e, w.docA)
	}
	return o
}

// shared renders everything the calls share.
func (w *c07World) shared() string {
	var b strings.Builder
	b.WriteString(core.DeepHash(w.expr))
	b.WriteString("|")
	b.WriteString(core.Snapshot(w.docA))
	b.WriteString("|")
	b.WriteString(core.Snapshot(w.docB))
	b.WriteString("|")
	b.WriteString(core.Snapshot(w.bad))
	if len(verifrt.UsesSync) == 0 {
		// with synchronisation primitives in the library, package-level state may legitimately change under a lock
		// (a cache, a pool): it is then judged by outcomes and by the race-detector pass, not by this hash
		for _, g := range verifrt.Globals {
			b.WriteString("|" + g.Name + "=")
			b.WriteString(core.DeepHash(g.Ptr))
		}
	}
	return b.String()
}

func init() {
	core.Register(&core.Check{
		ID:    "C07",
		Title: "compiled expressions and Search are safe for concurrent use",
		Rule: "2 (thorough: also 3) goroutines call Expression.Search / Search / Compile concurrently on one shared compiled Expression and shared read-only documents (arrays with spare capacity holding sentinels), the same expression or two different ones that start from the same part of a document, " +
			"from a fresh state and after the expression has failed half-way on a third document; the library yields at every function entry, every loop iteration and every operation on a sync type (sync.Mutex, RWMutex, Once, Pool and Map are replaced by scheduler-aware models: a lock wait is a blocked task, all tasks blocked is a deadlock), and the explorer decides which goroutine runs between two yields; " +
			"quick: every schedule with at most 2 preemptions (iterative bounding 0, 1, 2; 1 for executions of more than 100 steps; for executions of more than 400 steps a preemption is tried at every 8th yield point only, for executions of more than 2000 steps at about 250 evenly spaced yield points); thorough: every reachable scheduler state (vector of yield counts, with state-key pruning) for 2 goroutines when the library keeps no state, else bound 3; " +
			"every execution starts from the package-level state the process had before its first library call (saved and restored by deep copy); in every state the hash of everything shared (AST behind the Expression, the documents incl. hidden capacity, and - when the library uses no sync primitive - every package-level variable) must equal its initial value, and at the end every call's outcome must equal its solo outcome; " +
			"a second phase runs the same scenario bodies free-running under the race detector; non-trivial = a schedule with at least one context switch; distinct_nontrivial counts distinct schedules among them",
		Phases: []core.Phase{{Name: "schedules", Build: "instr", Procs: 120, Fn: c07Run}, {Name: "race-detector", Build: "race", Procs: 4, Fn: c07RunRace, CrashIsViolation: true}},
		Judge:  c07Judge,
		Assumptions: []string{
			"scheduling points are function entries, loop iterations and sync operations of the four packages; a race confined to straight-line code is visible through the shared-state hash (any write to shared state is reported whatever the interleaving) and through the free-running race-detector pass",
			"the instrumenter reports on every run which sync types it replaced by models and which uses it could not model (sync.WaitGroup, sync.Cond, go statements, channels): with any of the latter the search is limited to non-preemptive schedules and says so under caps; hardware memory ordering is not modelled",
		},
	})
}

// c07Solo runs every call alone and returns the expected observations; a solo
// run that changes shared state is itself a violation.
func c07Solo(sc c07Scenario) ([]core.Obs, *core.Violation) {
	w := c07Build(sc)
	want := make([]core.Obs, len(sc.Calls))
	for i := range sc.Calls {
		w2 := c07BuildFor(sc, i)
		init := w2.shared()
		var bad string
		sched.Run([]*sched.Task{w2.tasks[i]}, nil, func(x *sched.Exec, ts []*sched.Task) bool {
			if bad == "" && w2.shared() != init {
				site := "start"
				if n := len(x.Steps); n > 0 {
					site = x.Steps[n-1].Site
				}
				bad = site
			}
			return true
		})
		if bad == "" && w2.shared() != init {
			bad = "end of call"
		}
		want[i] = w2.obs[i]
		if bad != "" {
			return want, c07Violation(sc, "shared-state-written-by-a-single-call", nil, "shared state (expression, documents, package variables) never written", "changed after yield site "+bad+" of call "+sc.Calls[i])
		}
	}
	_ = w
	return want, nil
}

func c07Violation(sc c07Scenario, kind string, choices []int, exp, act string) *core.Violation {
	cs := make([]string, len(choices))
	for i, c := range choices {
		cs[i] = fmt.Sprint(c)
	}
	desc := fmt.Sprintf("%v on %q, schedule %v", sc.Calls, sc.Expr, trunc(strings.Join(cs, ""), 80))
	if len(sc.Pre) > 0 {
		desc = fmt.Sprintf("after %v: ", sc.Pre) + desc
	}
	return &core.Violation{Sig: "C07/" + kind + "/" + fnOf(sc.Expr), Desc: desc,
		Point: map[string]any{"expr": sc.Expr, "calls": strings.Join(sc.Calls, c07Sep), "pre": strings.Join(sc.Pre, c07Sep), "schedule": strings.Join(cs, ","), "doc": strings.Join(sc.Calls, " ")}, Expected: exp, Actual: act}
}

// c07Execute runs one schedule and checks the oracles; it returns the execution.
func c07Execute(r *core.Run, sc c07Scenario, want []core.Obs, prefix []int) (*sched.Exec, *core.Violation) {
	w := c07Build(sc)
	init := w.shared()
	// the shared-state hash is compared at the end of every execution (and after every yield of every solo run); when
	// it differs the execution is repeated with a comparison at every state to name the writing step
	x := sched.Run(w.tasks, prefix, nil)
	r.Add("evaluations", int64(len(sc.Calls)))
	r.Add("transitions", int64(len(x.Steps)))
	r.Beat()
	if x.Aborted == sched.Deadlock {
		return x, c07Violation(sc, "deadlock", x.Choices(), "every call returns", "every unfinished call waits for a lock held by another")
	}
	if w.shared() != init {
		w2 := c07Build(sc)
		init2 := w2.shared()
		where := "by the end of the execution"
		sched.Run(w2.tasks, x.Choices(), func(x *sched.Exec, ts []*sched.Task) bool {
			if n := len(x.Steps); n > 0 && where == "by the end of the execution" && w2.shared() != init2 {
				last := x.Steps[n-1]
				where = fmt.Sprintf("during the step of call %d (%s) that started at %s", last.Task, sc.Calls[last.Task], last.Site)
			}
			return true
		})
		return x, c07Violation(sc, "shared-state-written", x.Choices(), "shared state never written while calls are in flight", "changed "+where)
	}
	for i := range sc.Calls {
		if w.obs[i].Key() != want[i].Key() {
			return x, c07Violation(sc, "outcome-differs-from-solo", x.Choices(), fmt.Sprintf("call %d (%s) returns its solo outcome %s", i, sc.Calls[i], want[i].Short()), w.obs[i].Short())
		}
	}
	// a result handed to one caller must not be written by another call afterwards: the value each call returned is
	// read again once every call has finished
	for i := range sc.Calls {
		if o := w.obs[i]; o.Kind == "ok" && core.Canon(core.Norm(o.Raw)) != core.Canon(o.Val) {
			return x, c07Violation(sc, "result-changed-after-return", x.Choices(), fmt.Sprintf("the value call %d (%s) returned stays %s", i, sc.Calls[i], o.Short()), "by the end of the execution it reads "+trunc(core.Canon(core.Norm(o.Raw)), 200))
		}
	}
	return x, nil
}

func c07Run(r *core.Run) {
	if !verifrt.Instrumented {
		r.InternalError("C07 needs the instrumented build")
		return
	}
	if len(verifrt.UsesSync)+len(verifrt.UsesGo)+len(verifrt.UsesChan) > 0 {
		r.Note(fmt.Sprintf("the library now uses synchronisation or goroutines (sync: %v, go: %v, chan: %v): yield points at function entries may no longer be sufficient", verifrt.UsesSync, verifrt.UsesGo, verifrt.UsesChan))
	}
	if c07Saved == nil {
		c07Saved = core.SaveGlobals() // before the first use of the library in this process
	}
	// first use: nothing of the library has run in this process yet. A call that writes package-level state (a lazily
	// built table, a memo, a counter) without any synchronisation primitive in the library is a write that two first
	// calls would race on, whatever the later schedules look like.
	if v := c07FirstUse(); v != nil && r.Shard == 0 {
		r.Violate(v)
	}
	scs := c07Scenarios(r.Thorough())
	r.Bound("scenarios", len(scs))
	r.Bound("expressions", len(c07Exprs))
	r.Bound("package_level_variables_hashed", len(verifrt.Globals))
	bound := 2
	if len(verifrt.SyncModelled) > 0 {
		r.Note(fmt.Sprintf("sync types replaced by scheduler-aware models (every operation a scheduling point, lock waits visible as blocked tasks): %v", verifrt.SyncModelled))
	}
	if len(verifrt.SyncUnmodelled)+len(verifrt.UsesGo)+len(verifrt.UsesChan) > 0 {
		// a goroutine parked at a yield while it holds a primitive the scheduler does not model would block the others
		// outside the scheduler's control: only schedules without preemption are explored (every order of whole calls)
		bound = 0
		r.Cap(fmt.Sprintf("library uses synchronisation the scheduler does not model (%v): schedule search limited to non-preemptive schedules", verifrt.SyncUnmodelled))
	}
	r.Bound("preemption_bound_quick", bound)
	for i, sc := range scs {
		if !r.Mine(i) {
			continue
		}
		if r.Expired() {
			return
		}
		r.Begin(map[string]any{"expr": sc.Expr, "doc": strings.Join(sc.Calls, " ")})
		want, v := c07Solo(sc)
		if v != nil {
			r.Violate(v)
			continue
		}
		// replay discipline: the default schedule twice, identical traces
		x1, v1 := c07Execute(r, sc, want, nil)
		x2, _ := c07Execute(r, sc, want, nil)
		if x1.Trace() != x2.Trace() || len(x1.Steps) != len(x2.Steps) {
			r.InternalError("schedule replay is not deterministic for " + sc.Expr)
			continue
		}
		if v1 != nil {
			r.Violate(v1)
			continue
		}
		if r.Thorough() && len(sc.Calls) == 2 && len(verifrt.UsesSync) == 0 {
			c07AllStates(r, sc, want)
		} else {
			b := bound
			if bound == 0 {
				b = 0
			} else if r.Thorough() {
				b = 3
			} else if len(x1.Steps) > 100 {
				// long calls: the number of schedules with two preemptions grows with the square of the yield
				// points; the quick tier keeps them to one preemption (the thorough tier explores every state)
				b = 1
				r.Add("scenarios_explored_with_preemption_bound_1", 1)
			}
			c07Bounded(r, sc, want, b)
		}
		if os.Getenv("VERIF_C07_DEBUG") != "" {
			fmt.Fprintf(os.Stderr, "C07DEBUG %d transitions so far, steps=%d %q %v %v\n", r.C["transitions"], len(x1.Steps), trunc(sc.Expr, 40), sc.Calls, sc.Pre)
		}
		r.Sample(func() any {
			return map[string]any{"expr": sc.Expr, "calls": sc.Calls, "default_schedule": x1.Trace(), "yield_points": len(x1.Steps)}
		})
	}
}

func c07Globals() string {
	var b strings.Builder
	for _, g := range verifrt.Globals {
		b.WriteString("|" + g.Name + "=")
		b.WriteString(core.DeepHash(g.Ptr))
	}
	return b.String()
}

var c07FirstUseDone bool

// c07FirstUse must be the first thing that touches the library in a worker process.
func c07FirstUse() *core.Violation {
	if c07FirstUseDone {
		return nil
	}
	c07FirstUseDone = true
	if len(verifrt.UsesSync) > 0 {
		return nil // lazily initialised state may be legitimately guarded; the schedule search and the race pass decide
	}
	before := c07Globals()
	names := map[string]string{}
	for _, g := range verifrt.Globals {
		names[g.Name] = core.DeepHash(g.Ptr)
	}
	doc := c07DocA()
	for _, e := range []string{"a", "a.b[0] || c && !d == e != f < g <= h > i >= j + k - l * m / n // o % p", "sort_by(arr, &k)[*].g | [0]", "let $x = n in [$x, -$x, +$x]", "longs[0] + longs[1] * `123456789012345678901234`",
		"{p: a[*].b[?c > `1`].c[], q: o.*, r: s[::-1], t: `[1, {\"a\": 2.50}]`, u: 'raw', v: \"b\"}", "to_number('1234567890123.5') + sum(longs)", "nosuch(", "abs()", "a[::0]"} {
		core.Search(e, doc)
		if ex, _ := core.Compile(e); ex != nil {
			core.ExprSearch(ex, doc)
		}
	}
	if c07Globals() == before {
		return nil
	}
	var changed []string
	for _, g := range verifrt.Globals {
		if core.DeepHash(g.Ptr) != names[g.Name] {
			changed = append(changed, g.Name)
		}
	}
	return &core.Violation{Sig: "C07/package-state-written-on-first-use/" + strings.Join(changed, "+"), Desc: "the first calls of a fresh process wrote package-level variables " + strings.Join(changed, ", "),
		Point:    map[string]any{"expr": "first-use", "calls": "", "schedule": "", "doc": "first calls of a fresh process", "firstuse": true},
		Expected: "no package-level state written by Search / Compile (the library uses no synchronisation primitive)", Actual: "changed: " + strings.Join(changed, ", ")}
}

// c07Bounded: iterative preemption bounding (0, 1, .., bound).
func c07Bounded(r *core.Run, sc c07Scenario, want []core.Obs, bound int) {
	var explore func(prefix []int)
	stop := false
	n := 0
	explore = func(prefix []int) {
		if stop {
			return
		}
		if n++; n%256 == 0 && r.Expired() {
			stop = true
			return
		}
		x, v := c07Execute(r, sc, want, prefix)
		r.Add("states", 1)
		switches := 0
		for _, s := range x.Steps {
			if s.Running >= 0 && s.Task != s.Running {
				switches++
			}
		}
		if switches > 0 {
			r.Add("nontrivial_evaluations", 1)
			r.Outcome(sc.Expr + strings.Join(sc.Calls, "") + x.Trace())
		}
		if v != nil {
			r.Violate(v)
			stop = true
			return
		}
		for i := len(prefix); i < len(x.Steps); i++ {
			if stride := c07Stride(len(x.Steps)); i%stride != 0 {
				continue // very long calls: a preemption is tried at every stride-th yield point only (stated in the rule)
			}
			s := x.Steps[i]
			cost := x.PreemptionsBefore(i)
			for alt := 1; alt < len(s.Enabled); alt++ {
				c := cost
				if s.Running >= 0 && s.Enabled[0] == s.Running {
					c++ // switching away from a runnable task
				}
				if c > bound {
					continue
				}
				explore(append(append([]int{}, x.Choices()[:i]...), alt))
			}
		}
	}
	explore(nil)
}

// c07Stride: executions of more than 400 steps are preempted at every 8th yield point, executions of more than 2000 steps
// at about 250 evenly spaced yield points.
func c07Stride(steps int) int {
	switch {
	case steps <= 400:
		return 1
	case steps <= 2000:
		return 8
	}
	return steps / 250
}

// c07AllStates: every reachable scheduler state, pruned by (yield-count vector, shared-state hash).
func c07AllStates(r *core.Run, sc c07Scenario, want []core.Obs) {
	seen := map[string]bool{}
	stack := [][]int{nil}
	for n := 0; len(stack) > 0; n++ {
		if n%256 == 0 && r.Expired() {
			return
		}
		prefix := stack[len(stack)-1]
		stack = stack[:len(stack)-1]
		// replay the prefix, stop right after it, look at the state
		w := c07Build(sc)
		init := w.shared()
		var key string
		var enabled int
		var viol *core.Violation
		x := sched.Run(w.tasks, prefix, func(x *sched.Exec, ts []*sched.Task) bool {
			if len(x.Steps) == len(prefix) {
				if w.shared() != init {
					last := x.Steps[len(x.Steps)-1]
					viol = c07Violation(sc, "shared-state-written", x.Choices(), "shared state never written while calls are in flight", fmt.Sprintf("changed during the step of call %d that started at %s", last.Task, last.Site))
					return false
				}
				parts := make([]string, len(ts))
				enabled = 0
				for i, t := range ts {
					parts[i] = fmt.Sprint(t.Yields)
					_ = i
				}
				last := -1
				if n := len(x.Steps); n > 0 {
					last = x.Steps[n-1].Task
				}
				key = strings.Join(parts, ",") + fmt.Sprintf("/last=%d", last)
				return true // run to the end along the default continuation (checks the end-to-end oracle too)
			}
			return true
		})
		r.Add("transitions", int64(len(x.Steps)))
		r.Beat()
		if viol == nil && w.shared() != init {
			viol = c07Violation(sc, "shared-state-written", x.Choices(), "shared state never written", "changed by the end of the execution")
		}
		if viol != nil {
			r.Violate(viol)
			return
		}
		for i := range sc.Calls {
			if w.obs[i].Key() != want[i].Key() {
				r.Violate(c07Violation(sc, "outcome-differs-from-solo", x.Choices(), fmt.Sprintf("call %d (%s) returns its solo outcome %s", i, sc.Calls[i], want[i].Short()), w.obs[i].Short()))
				return
			}
		}
		if seen[key] {
			continue
		}
		seen[key] = true
		r.Add("states", 1)
		r.Add("nontrivial_evaluations", 1)
		r.Outcome(sc.Expr + strings.Join(sc.Calls, "") + key)
		if len(prefix) < len(x.Steps) {
			n := len(x.Steps[len(prefix)].Enabled)
			for alt := 0; alt < n; alt++ {
				stack = append(stack, append(append([]int{}, prefix...), alt))
			}
		}
		_ = enabled
		if len(seen) > 400000 {
			r.Cap("state cap per scenario")
			return
		}
	}
}

// c07RunRace: the same scenario bodies, free-running, under the race detector.
func c07RunRace(r *core.Run) {
	iters := 200
	if r.Thorough() {
		iters = 2000
	}
	r.Bound("race_pass_goroutines", 8)
	r.Bound("race_pass_iterations", iters)
	for i, e := range c07Exprs {
		if !r.Mine(i) {
			continue
		}
		r.Begin(map[string]any{"expr": e, "doc": "free-running race pass"})
		sc := c07Scenario{Expr: e, Calls: []string{"E(A)", "E(B)", "S(A)", "C"}, Pre: []string{"S(Bad)", "E(Bad)"}}
		w := c07Build(sc)
		solo := make([]core.Obs, len(sc.Calls))
		for j, c := range sc.Calls {
			solo[j] = w.do(e, c)
		}
		var wg sync.WaitGroup
		bad := make(chan string, 64)
		for g := 0; g < 8; g++ {
			wg.Add(1)
			go func(g int) {
				defer wg.Done()
				for k := 0; k < iters; k++ {
					j := (g + k) % len(sc.Calls)
					o := w.do(e, sc.Calls[j])
					if o.Key() != solo[j].Key() && !(o.Kind == "ok" && solo[j].Kind == "ok" && sortedEqual(o.Val, solo[j].Val)) {
						select {
						case bad <- fmt.Sprintf("call %s returned %s, alone %s", sc.Calls[j], o.Short(), solo[j].Short()):
						default:
						}
						return
					}
				}
			}(g)
		}
		wg.Wait()
		r.Add("evaluations", int64(8*iters))
		r.Add("transitions", int64(8*iters))
		r.Add("states", 1)
		select {
		case msg := <-bad:
			r.Violate(c07Violation(sc, "free-running-outcome-differs", nil, "every concurrent call returns its solo outcome", msg))
		default:
		}
	}
	if r.Mine(len(c07Exprs)) {
		c07Crowd(r)
	}
	fmt.Fprintln(os.Stderr, "race pass done")
}

// c07Crowd: one process first evaluates several thousand different expressions (whatever the library remembers about
// texts it has seen is full by then), then eight goroutines evaluate further different expressions at the same time,
// free-running under the race detector. Every call must return its own answer.
func c07Crowd(r *core.Run) {
	fill, each := 4300, 3000
	if r.Thorough() {
		fill, each = 70000, 20000
	}
	r.Bound("crowd_distinct_expressions_before", fill)
	r.Bound("crowd_distinct_expressions_per_goroutine", each)
	d := core.JSONDoc(`{"v":7,"w":[1,2,3]}`)
	text := func(i int) (string, string) {
		switch i % 3 {
		case 0:
			return fmt.Sprintf("[v, `%d`][1]", i), fmt.Sprintf("ok:#%d", i)
		case 1:
			return fmt.Sprintf("w[?@ < `%d`] | length(@)", i%5), fmt.Sprintf("ok:#%d", minInt(3, maxInt(0, i%5-1)))
		}
		return fmt.Sprintf("{k%d: v}.k%d", i, i), "ok:#7"
	}
	sc := c07Scenario{Expr: "crowd", Calls: []string{"S(many distinct expressions) x8"}}
	r.Begin(map[string]any{"expr": "crowd: many distinct expressions, then eight goroutines with further distinct expressions", "doc": "free-running race pass"})
	for i := 0; i < fill; i++ {
		t, want := text(i)
		o := core.Search(t, d)
		if e, co := core.Compile(t); e != nil && o.Key() == want {
			o = core.ExprSearch(e, d)
		} else if e == nil {
			o = co
		}
		if o.Key() != want {
			r.Violate(c07Violation(sc, "crowd-outcome-differs", nil, fmt.Sprintf("%s = %s", t, want), fmt.Sprintf("expression number %d of the process: %s", i, o.Short())))
			return
		}
	}
	var wg sync.WaitGroup
	bad := make(chan string, 64)
	for g := 0; g < 8; g++ {
		wg.Add(1)
		go func(g int) {
			defer wg.Done()
			for k := 0; k < each; k++ {
				t, want := text(fill + g*each + k)
				// three calls in four are one-shot searches (every one a text the process has not seen), the fourth compiles
				var o core.Obs
				if (g+k)%4 != 0 {
					o = core.Search(t, d)
				} else if e, co := core.Compile(t); e != nil {
					o = core.ExprSearch(e, d)
				} else {
					o = co
				}
				if o.Key() != want {
					select {
					case bad <- fmt.Sprintf("%s returned %s, expected %s", t, o.Short(), want):
					default:
					}
					return
				}
			}
		}(g)
	}
	wg.Wait()
	r.Add("evaluations", int64(fill+8*each))
	r.Add("transitions", int64(8*each))
	r.Add("states", 1)
	select {
	case msg := <-bad:
		r.Violate(c07Violation(sc, "crowd-outcome-differs", nil, "every concurrent call returns its own answer", msg))
	default:
	}
}

func minInt(a, b int) int {
	if a < b {
		return a
	}
	return b
}

func c07Judge(r *core.Run, phase string, pt map[string]any) *core.Violation {
	if pbool(pt, "firstuse") {
		if !verifrt.Instrumented {
			return nil
		}
		return c07FirstUse()
	}
	sc := c07Scenario{Expr: pstr(pt, "expr"), Calls: strings.Split(pstr(pt, "calls"), c07Sep)}
	if p := pstr(pt, "pre"); p != "" {
		sc.Pre = strings.Split(p, c07Sep)
	}
	if !verifrt.Instrumented {
		return nil
	}
	if c07Saved == nil {
		c07Saved = core.SaveGlobals()
	}
	want, v := c07Solo(sc)
	if v != nil {
		return v
	}
	var prefix []int
	for _, s := range strings.Split(pstr(pt, "schedule"), ",") {
		var k int
		if _, err := fmt.Sscan(s, &k); err == nil {
			prefix = append(prefix, k)
		}
	}
	_, v = c07Execute(r, sc, want, prefix)
	return v
}
