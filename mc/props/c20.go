package props

import (
	"encoding/json"
	"fmt"
	"math"
	"math/big"
	"strings"

	"github.com/woodsbury/jmespath/internal/verifmc/core"
	"github.com/woodsbury/jmespath/internal/verifmc/ref"
)

// C20 — equality is a deep, type-strict equivalence; truthiness is uniform.
// Algebraic laws on the implementation's own answers, plus agreement of every
// answer with the reference's deep equality and five-falsy rule.

var c20Atoms = []string{"null", "true", "false", "0", "1", "1.0", "1e0", "-0", "2", `""`, `"1"`, `"a"`, "[]", "{}"}

func c20Values(thorough bool) []doc {
	texts := jsonDocs(c20Atoms, []string{"a", "b"}, 2, 2)
	if thorough {
		texts = append(texts, `[[1],[1.0]]`, `[[1,[2]],[1.0,[2.0]]]`, `{"a":{"a":1},"b":[1]}`, `{"a":{"a":1.0},"b":[1e0]}`, `{"b":[1],"a":{"a":1}}`,
			`[null,[null]]`, `[[],[[]]]`, `{"a":{}}`, `{"a":{"b":{}}}`, `"é"`, `"é"`, `0.1`, `0.10`, `1e-1`, `100`, `1e2`, `12345678901234567890`, `12345678901234567891`)
	}
	seen := map[string]bool{}
	var out []doc
	for _, t := range texts {
		if !seen[t] {
			seen[t] = true
			out = append(out, mkDoc(t))
		}
	}
	return out
}

// c20BigValues is the thorough alphabet: every value of depth <= 2 with arrays up to length 3 and objects over three
// keys, plus every value of depth <= 3 over a reduced atom list.
func c20BigValues() []doc {
	texts := jsonDocs(c20Atoms, []string{"a", "b", "c"}, 3, 2)
	texts = append(texts, jsonDocs([]string{"null", "1", "1.0", `"1"`, "[]"}, []string{"a"}, 2, 3)...)
	for _, d := range c20Values(true) {
		texts = append(texts, d.Text)
	}
	seen := map[string]bool{}
	var out []doc
	for _, t := range texts {
		if !seen[t] {
			seen[t] = true
			out = append(out, mkDoc(t))
		}
	}
	return out
}

func init() {
	core.Register(&core.Check{
		ID:    "C20",
		Title: "equality is a deep, type-strict equivalence and truthiness is uniform",
		Rule: "every ordered pair of the value alphabet (all JSON values of depth <= 2 over the atom list, numerically equal numbers in different spellings included) is compared through ==, !=, contains and the literal spelling; the implementation's " +
			"own answer matrix is checked for reflexivity, symmetry and transitivity (all triples) and against the reference's deep equality; every value and pair goes through !, &&, ||, [?@] and [?x].y against the five-falsy rule; " +
			"the thorough tier repeats the matrix over arrays up to length 3, objects over three keys and depth-3 values (x == y implies row(x) = row(y), which with reflexivity is symmetry and transitivity); " +
			"non-trivial = a pair judged equal although spelled differently, or a truthy operand returned; distinct_nontrivial counts distinct non-trivial outcomes",
		Phases: []core.Phase{
			{Name: "algebra", Build: "instr", Procs: 1, Fn: c20Algebra},
			{Name: "operators", Build: "instr", Fn: c20Operators},
			{Name: "big-matrix", Build: "instr", Fn: c20BigMatrix},
			{Name: "float-carriers", Build: "instr", Procs: 1, Fn: c20Floats},
			{Name: "integer-carriers", Build: "instr", Procs: 1, Fn: c20Ints},
			{Name: "truthiness-carriers", Build: "instr", Procs: 4, Fn: c20RunCarriers},
			{Name: "shared-subvalues", Build: "instr", Fn: c20RunShared},
		},
		Judge: c20Judge,
		Assumptions: []string{
			"numbers are delivered as json.Number (C14 covers the other Go kinds)",
		},
	})
}

var (
	c20Eq  = lazyExpr{"x == y"}
	c20Ne  = lazyExpr{"x != y"}
	c20Con = lazyExpr{"contains([x], y)"}
	c20Co2 = lazyExpr{"contains(l, y)"}
)

func c20Pair(x, y doc) any {
	return map[string]any{"x": x.Raw, "y": y.Raw, "l": []any{"filler", x.Raw, nil}}
}

func boolOf(o core.Obs) (bool, bool) {
	if o.Kind != "ok" {
		return false, false
	}
	b, ok := o.Val.(bool)
	return b, ok
}

func c20Algebra(r *core.Run) {
	vals := c20Values(r.Thorough())
	n := len(vals)
	r.Bound("values", n)
	E := make([][]bool, n)
	viol := func(sig, desc string, pt map[string]any, exp, act string) {
		pt["law"] = sig
		r.Violate(&core.Violation{Sig: "C20/" + sig, Desc: desc, Point: pt, Expected: exp, Actual: act})
	}
	for i := range vals {
		E[i] = make([]bool, n)
		for j := range vals {
			d := c20Pair(vals[i], vals[j])
			pt := map[string]any{"x": vals[i].Text, "y": vals[j].Text, "expr": "x == y", "doc": fmt.Sprintf(`{"x":%s,"y":%s}`, vals[i].Text, vals[j].Text)}
			r.Begin(pt)
			o := c20Eq.run(d)
			r.Add("evaluations", 1)
			r.Add("states", 1)
			b, ok := boolOf(o)
			if !ok {
				viol("equality-not-boolean", "x == y on "+pstr(pt, "doc"), pt, "a boolean", o.Short())
				continue
			}
			E[i][j] = b
			want, det := ref.DeepEqual(vals[i].Norm, vals[j].Norm)
			if det && want != b {
				sig := "equality-differs-from-deep-equality"
				if ref.TypeOf(vals[i].Norm) != ref.TypeOf(vals[j].Norm) {
					sig = "equality-across-json-types"
				}
				viol(sig+"/"+ref.TypeOf(vals[i].Norm)+"-"+ref.TypeOf(vals[j].Norm), "x == y on "+pstr(pt, "doc"), pt, fmt.Sprint(want), o.Short())
			}
			if b && vals[i].Text != vals[j].Text {
				r.Add("nontrivial_evaluations", 1)
				r.Outcome(vals[i].Text + "==" + vals[j].Text)
			}
			// != is the exact negation, contains uses the same relation
			ne := c20Ne.run(d)
			c1 := c20Con.run(d)
			c2 := c20Co2.run(d)
			r.Add("evaluations", 3)
			r.Add("transitions", 4)
			if nb, ok := boolOf(ne); !ok || nb == b {
				viol("not-equal-is-not-the-negation", "x != y on "+pstr(pt, "doc"), pt, fmt.Sprint(!b), ne.Short())
			}
			if cb, ok := boolOf(c1); !ok || cb != b {
				viol("contains-uses-another-relation", "contains([x], y) on "+pstr(pt, "doc"), pt, fmt.Sprint(b), c1.Short())
			}
			if cb, ok := boolOf(c2); !ok || cb != (b || vals[j].Text == `"filler"` || vals[j].Text == "null") {
				viol("contains-uses-another-relation", "contains(l, y) with l = [\"filler\", x, null] on "+pstr(pt, "doc"), pt, fmt.Sprint(b), c2.Short())
			}
			if (i*n+j)%997 == 0 {
				r.Sample(func() any { return map[string]any{"x": vals[i].Text, "y": vals[j].Text, "x == y": b} })
			}
		}
	}
	// laws on the implementation's own matrix
	for i := 0; i < n; i++ {
		if !E[i][i] {
			viol("not-reflexive", "x == x", map[string]any{"x": vals[i].Text, "y": vals[i].Text}, "true", "false")
		}
		for j := 0; j < n; j++ {
			if E[i][j] != E[j][i] {
				viol("not-symmetric", "x == y vs y == x", map[string]any{"x": vals[i].Text, "y": vals[j].Text}, fmt.Sprint(E[j][i]), fmt.Sprint(E[i][j]))
			}
			if !E[i][j] {
				continue
			}
			for k := 0; k < n; k++ {
				r.C["states"]++
				if E[j][k] && !E[i][k] {
					viol("not-transitive", "x == y, y == z but x != z", map[string]any{"x": vals[i].Text, "y": vals[j].Text, "z": vals[k].Text}, "true", "false")
				}
			}
		}
	}
	r.Add("triples_checked_for_transitivity", int64(n)*int64(n)*int64(n))
}

// truthiness and the operand-returning operators
var (
	c20Not  = lazyExpr{"!x"}
	c20And  = lazyExpr{"x && y"}
	c20Or   = lazyExpr{"x || y"}
	c20Filt = lazyExpr{"l[?@]"}
	c20FltY = lazyExpr{"o[?x].y"}
	c20Flt2 = lazyExpr{"o[?x && !y] | length(@)"}
)

func sameRaw(a core.Obs, raw any) bool {
	return a.Kind == "ok" && core.Skeleton(a.Raw) == core.Skeleton(raw) && core.ToJSONText(a.Raw) == core.ToJSONText(raw)
}

// c20BigMatrix (thorough only): the equivalence laws over the big alphabet, sharded by row. With reflexivity,
// "x == y implies the whole row of x equals the whole row of y" is exactly symmetry plus transitivity.
func c20BigMatrix(r *core.Run) {
	if !r.Thorough() {
		return
	}
	vals := c20BigValues()
	n := len(vals)
	r.Bound("big_values", n)
	row := func(i int, own bool) []bool {
		out := make([]bool, n)
		for j := range vals {
			d := c20Pair(vals[i], vals[j])
			if own {
				r.Begin(map[string]any{"x": vals[i].Text, "y": vals[j].Text, "expr": "x == y", "doc": fmt.Sprintf(`{"x":%s,"y":%s}`, vals[i].Text, vals[j].Text)})
			}
			o := c20Eq.run(d)
			r.Add("evaluations", 1)
			r.Add("transitions", 1)
			b, ok := boolOf(o)
			pt := func(law string) map[string]any {
				return map[string]any{"law": law, "x": vals[i].Text, "y": vals[j].Text, "expr": "x == y", "doc": fmt.Sprintf(`{"x":%s,"y":%s}`, vals[i].Text, vals[j].Text)}
			}
			if !ok {
				r.Violate(&core.Violation{Sig: "C20/equality-not-boolean", Desc: "x == y", Point: pt("equality-not-boolean"), Expected: "a boolean", Actual: o.Short()})
				continue
			}
			out[j] = b
			if !own {
				continue
			}
			r.Add("states", 1)
			if want, det := ref.DeepEqual(vals[i].Norm, vals[j].Norm); det && want != b {
				sig := "equality-differs-from-deep-equality"
				if ref.TypeOf(vals[i].Norm) != ref.TypeOf(vals[j].Norm) {
					sig = "equality-across-json-types"
				}
				r.Violate(&core.Violation{Sig: "C20/" + sig + "/" + ref.TypeOf(vals[i].Norm) + "-" + ref.TypeOf(vals[j].Norm), Desc: "x == y", Point: pt(sig), Expected: fmt.Sprint(want), Actual: o.Short()})
			}
			if b && vals[i].Text != vals[j].Text {
				r.Add("nontrivial_evaluations", 1)
				r.Outcome(vals[i].Text + "==" + vals[j].Text)
			}
			ne := c20Ne.run(d)
			c1 := c20Con.run(d)
			r.Add("evaluations", 2)
			if nb, ok := boolOf(ne); !ok || nb == b {
				r.Violate(&core.Violation{Sig: "C20/not-equal-is-not-the-negation", Desc: "x != y", Point: pt("not-equal-is-not-the-negation"), Expected: fmt.Sprint(!b), Actual: ne.Short()})
			}
			if cb, ok := boolOf(c1); !ok || cb != b {
				r.Violate(&core.Violation{Sig: "C20/contains-uses-another-relation", Desc: "contains([x], y)", Point: pt("contains-uses-another-relation"), Expected: fmt.Sprint(b), Actual: c1.Short()})
			}
		}
		return out
	}
	for i := range vals {
		if !r.Mine(i) {
			continue
		}
		if r.Expired() {
			break
		}
		ri := row(i, true)
		if !ri[i] {
			r.Violate(&core.Violation{Sig: "C20/not-reflexive", Desc: "x == x", Point: map[string]any{"law": "not-reflexive", "x": vals[i].Text, "y": vals[i].Text}, Expected: "true", Actual: "false"})
		}
		for j := range vals {
			if j == i || !ri[j] {
				continue
			}
			rj := row(j, false)
			r.Add("rows_compared", 1)
			if !rj[i] {
				r.Violate(&core.Violation{Sig: "C20/not-symmetric", Desc: "x == y vs y == x", Point: map[string]any{"law": "not-symmetric", "x": vals[i].Text, "y": vals[j].Text}, Expected: "true", Actual: "false"})
				continue
			}
			for k := range vals {
				if ri[k] == rj[k] {
					continue
				}
				x, y := i, j
				if ri[k] {
					x, y = j, i
				}
				r.Violate(&core.Violation{Sig: "C20/not-transitive", Desc: "x == y, y == z but x != z", Point: map[string]any{"law": "not-transitive", "x": vals[x].Text, "y": vals[y].Text, "z": vals[k].Text}, Expected: "true", Actual: "false"})
				break
			}
		}
	}
}

func c20Operators(r *core.Run) {
	vals := c20Values(r.Thorough())
	if r.Thorough() {
		vals = c20BigValues()
	}
	r.Bound("values", len(vals))
	for i, x := range vals {
		if !r.Mine(i) {
			continue
		}
		if r.Expired() {
			break
		}
		tx := ref.Truthy(x.Norm)
		for _, y := range vals {
			pt := map[string]any{"x": x.Text, "y": y.Text, "doc": fmt.Sprintf(`{"x":%s,"y":%s}`, x.Text, y.Text)}
			r.Begin(pt)
			if v := c20OpsPoint(r, x, y, tx); v != nil {
				r.Violate(v)
			}
		}
		r.Add("states", 1)
	}
}

func c20OpsPoint(r *core.Run, x, y doc, tx bool) *core.Violation {
	d := map[string]any{"x": x.Raw, "y": y.Raw, "l": []any{x.Raw, y.Raw}, "o": []any{map[string]any{"x": x.Raw, "y": y.Raw}}}
	docText := fmt.Sprintf(`{"x":%s,"y":%s}`, x.Text, y.Text)
	mk := func(law, expr string, exp string, o core.Obs) *core.Violation {
		return &core.Violation{Sig: "C20/" + law + "/" + ref.TypeOf(x.Norm), Desc: expr + " on " + docText,
			Point: map[string]any{"law": law, "x": x.Text, "y": y.Text, "expr": expr, "doc": docText}, Expected: exp, Actual: o.Short()}
	}
	r.Add("transitions", 5)
	no := c20Not.run(d)
	r.Eval(no)
	if b, ok := boolOf(no); !ok || b == tx {
		return mk("not-disagrees-with-the-truth-rule", "!x", fmt.Sprint(!tx), no)
	}
	and := c20And.run(d)
	r.Eval(and)
	wantAnd := y
	if !tx {
		wantAnd = x
	}
	if !sameRaw(and, wantAnd.Raw) {
		return mk("and-does-not-return-its-operand", "x && y", "operand unchanged: "+wantAnd.Text, and)
	}
	or := c20Or.run(d)
	r.Eval(or)
	wantOr := x
	if !tx {
		wantOr = y
	}
	if !sameRaw(or, wantOr.Raw) {
		return mk("or-does-not-return-its-operand", "x || y", "operand unchanged: "+wantOr.Text, or)
	}
	// filter predicates use the same rule
	f := c20Filt.run(d)
	r.Eval(f)
	var keep []any
	for _, v := range []doc{x, y} {
		if ref.Truthy(v.Norm) {
			keep = append(keep, v.Norm)
		}
	}
	if keep == nil {
		keep = []any{}
	}
	if f.Kind != "ok" || !core.EqualFast(f.Val, keep) {
		return mk("filter-disagrees-with-the-truth-rule", "l[?@] with l = [x, y]", core.Canon(keep), f)
	}
	fy := c20FltY.run(d)
	r.Eval(fy)
	wantFy := []any{}
	if tx && y.Norm != nil {
		wantFy = []any{y.Norm}
	}
	if fy.Kind != "ok" || !core.EqualFast(fy.Val, wantFy) {
		return mk("filter-disagrees-with-the-truth-rule", "o[?x].y with o = [{x, y}]", core.Canon(wantFy), fy)
	}
	f2 := c20Flt2.run(d)
	r.Add("evaluations", 1)
	n := 0
	if tx && !ref.Truthy(y.Norm) {
		n = 1
	}
	if f2.Kind != "ok" || !core.EqualFast(f2.Val, core.Norm(int64(n))) {
		return mk("filter-disagrees-with-the-truth-rule", "o[?x && !y] | length(@)", fmt.Sprint(n), f2)
	}
	// chains of three: || yields its first truthy operand or else the LAST one unchanged, && its first falsy one or else the last
	for _, ch := range [][3]string{{"x", "y", "x"}, {"x", "x", "y"}, {"y", "x", "y"}, {"y", "y", "x"}} {
		pick := map[string]doc{"x": x, "y": y}
		ops := []doc{pick[ch[0]], pick[ch[1]], pick[ch[2]]}
		wantOr, wantAnd := ops[2], ops[2]
		for i := 2; i >= 0; i-- {
			if ref.Truthy(ops[i].Norm) {
				wantOr = ops[i]
			}
		}
		for i := 2; i >= 0; i-- {
			if !ref.Truthy(ops[i].Norm) {
				wantAnd = ops[i]
			}
		}
		for _, form := range []string{"%s || %s || %s", "(%s || %s) || %s", "%s || (%s || %s)", "[%s || %s || %s][0]"} {
			e := fmt.Sprintf(form, ch[0], ch[1], ch[2])
			o := prepareImplCached(e).run(d)
			r.Add("evaluations", 1)
			if !sameRaw(o, wantOr.Raw) {
				return mk("or-chain-does-not-return-its-operand", e, "operand unchanged: "+wantOr.Text, o)
			}
		}
		for _, form := range []string{"%s && %s && %s", "(%s && %s) && %s", "%s && (%s && %s)"} {
			e := fmt.Sprintf(form, ch[0], ch[1], ch[2])
			o := prepareImplCached(e).run(d)
			r.Add("evaluations", 1)
			if !sameRaw(o, wantAnd.Raw) {
				return mk("and-chain-does-not-return-its-operand", e, "operand unchanged: "+wantAnd.Text, o)
			}
		}
	}
	// the two filters [?@] and [?!@] partition an array, also when the array reaches them through a function that may hand
	// its argument on unchanged, and whichever is evaluated first
	for _, e := range []string{"[to_array(l)[?@], to_array(l)[?!@]]", "[l[?!@], l[?@]]", "[not_null(l)[?@], l, not_null(l)[?!@]] | [@[0], @[2]]", "[reverse(reverse(l))[?@], reverse(reverse(l))[?!@]]"} {
		pr := prepareImplCached(e).run(d)
		r.Add("evaluations", 1)
		var yes, no []any
		for _, v := range []doc{x, y} {
			if ref.Truthy(v.Norm) {
				yes = append(yes, v.Norm)
			} else if v.Norm != nil {
				no = append(no, v.Norm) // a null element passes [?!@] but a projection never yields null
			}
		}
		if yes == nil {
			yes = []any{}
		}
		if no == nil {
			no = []any{}
		}
		want := []any{yes, no}
		if strings.HasPrefix(e, "[l[?!@]") {
			want = []any{no, yes}
		}
		if pr.Kind != "ok" || !core.EqualFast(pr.Val, want) {
			return mk("filters-do-not-partition", e+" with l = [x, y]", core.Canon(want), pr)
		}
	}
	// the negation of every comparison is the negation of its (possibly null) outcome under the truth rule
	for _, op := range []string{"<", "<=", ">", ">=", "==", "!="} {
		cmp := prepareImplCached("x " + op + " y").run(d)
		neg := prepareImplCached("!(x " + op + " y)").run(d)
		fneg := prepareImplCached("o[?!(x " + op + " y)] | length(@)").run(d)
		r.Add("evaluations", 3)
		if cmp.Kind != "ok" {
			continue
		}
		want := !ref.Truthy(cmp.Val)
		if b, ok := boolOf(neg); !ok || b != want {
			return mk("negated-comparison", "!(x "+op+" y)", fmt.Sprintf("%v (x %s y is %s)", want, op, cmp.Short()), neg)
		}
		wn := 0
		if want {
			wn = 1
		}
		if fneg.Kind != "ok" || !core.EqualFast(fneg.Val, core.Norm(int64(wn))) {
			return mk("negated-comparison", "o[?!(x "+op+" y)] | length(@)", fmt.Sprint(wn), fneg)
		}
	}
	// the same through literals
	lit := prepareImpl("`" + x.Text + "` == `" + y.Text + "`")
	lo := lit.run(nil)
	r.Add("evaluations", 1)
	want, det := ref.DeepEqual(x.Norm, y.Norm)
	if b, ok := boolOf(lo); det && (!ok || b != want) {
		return mk("literal-equality-differs", lit.Text, fmt.Sprint(want), lo)
	}
	lt := prepareImpl("`" + x.Text + "` && `" + y.Text + "`")
	la := lt.run(nil)
	r.Add("evaluations", 1)
	if !sameRaw(la, wantAnd.Raw) {
		return mk("and-does-not-return-its-operand", lt.Text, "operand unchanged: "+wantAnd.Text, la)
	}
	return nil
}

func c20Judge(r *core.Run, phase string, pt map[string]any) *core.Violation {
	if pbool(pt, "carriers") {
		return c20CarrierJudge(r, pt)
	}
	if pbool(pt, "shared") {
		return c20SharedJudge(r, pt)
	}
	if pbool(pt, "ints") {
		sub := *r
		sub.Clusters = map[string]*core.Cluster{}
		c20Ints(&sub)
		for _, c := range sub.Clusters {
			return c.Min
		}
		return nil
	}
	if pbool(pt, "float") {
		// re-run the (small) phase and return the violation of the same law, if any
		sub := *r
		sub.Clusters = map[string]*core.Cluster{}
		c20Floats(&sub)
		for _, c := range sub.Clusters {
			return c.Min
		}
		return nil
	}
	x, y := mkDoc(pstr(pt, "x")), mkDoc(pstr(pt, "y"))
	if phase == "operators" {
		return c20OpsPoint(r, x, y, ref.Truthy(x.Norm))
	}
	// algebra: re-evaluate the pair (and the triple for transitivity)
	eq := func(a, b doc) (bool, core.Obs) {
		o := c20Eq.run(c20Pair(a, b))
		v, _ := boolOf(o)
		return v, o
	}
	law := pstr(pt, "law")
	mk := func(exp string, o core.Obs) *core.Violation {
		return &core.Violation{Sig: "C20/" + law, Desc: "x == y", Point: pt, Expected: exp, Actual: o.Short()}
	}
	b, o := eq(x, y)
	switch {
	case law == "not-reflexive":
		if !b {
			return mk("true", o)
		}
	case law == "not-symmetric":
		if b2, _ := eq(y, x); b2 != b {
			return mk(fmt.Sprint(b2), o)
		}
	case law == "not-transitive":
		z := mkDoc(pstr(pt, "z"))
		b2, _ := eq(y, z)
		b3, o3 := eq(x, z)
		if b && b2 && !b3 {
			return mk("true", o3)
		}
	case law == "not-equal-is-not-the-negation":
		ne := c20Ne.run(c20Pair(x, y))
		if nb, ok := boolOf(ne); !ok || nb == b {
			return mk(fmt.Sprint(!b), ne)
		}
	case law == "contains-uses-another-relation":
		c1 := c20Con.run(c20Pair(x, y))
		if cb, ok := boolOf(c1); !ok || cb != b {
			return mk(fmt.Sprint(b), c1)
		}
	default:
		want, det := ref.DeepEqual(x.Norm, y.Norm)
		if det && want != b {
			return mk(fmt.Sprint(want), o)
		}
	}
	return nil
}

// c20Ints: equality across the Go integer kinds at the edges of their ranges (the same bit pattern means different
// numbers in a signed and an unsigned kind) and against exact decimal text.
func c20Ints(r *core.Run) {
	type iv struct {
		v    any
		text string
	}
	vals := []iv{{uint64(1) << 63, "9223372036854775808"}, {uint64(math.MaxUint64), "18446744073709551615"}, {int64(math.MinInt64), "-9223372036854775808"}, {int64(-1), "-1"}, {int64(math.MaxInt64), "9223372036854775807"},
		{uint64(math.MaxInt64), "9223372036854775807"}, {uint(math.MaxUint64), "18446744073709551615"}, {uint32(math.MaxUint32), "4294967295"}, {int32(-1), "-1"}, {uint8(255), "255"}, {int8(-1), "-1"}, {uint16(65535), "65535"},
		{int16(-1), "-1"}, {uint64(0), "0"}, {int64(0), "0"}, {uint64(1)<<63 + 1, "9223372036854775809"}, {int(math.MinInt64), "-9223372036854775808"}}
	for i, a := range vals {
		for j, b := range vals {
			exact := a.text == b.text
			for _, carry := range []string{"native", "native-vs-text", "contains", "in-arrays"} {
				var d any = map[string]any{"x": a.v, "y": b.v, "h": []any{"filler", b.v, nil}}
				expr := "x == y"
				switch carry {
				case "native-vs-text":
					d = map[string]any{"x": a.v, "y": json.Number(b.text)}
				case "contains":
					expr = "contains(h, x)"
				case "in-arrays":
					expr = "[x, {k: x}] == [y, {k: y}]"
				}
				o := prepareImplCached(expr).run(d)
				r.Add("evaluations", 1)
				r.Add("states", 1)
				if bb, ok := boolOf(o); !ok || bb != exact {
					r.Violate(&core.Violation{Sig: "C20/integer-equality-is-not-exact/" + carry, Desc: fmt.Sprintf("%s with x=%s (%T) y=%s (%T)", expr, a.text, a.v, b.text, b.v),
						Point: map[string]any{"law": "integer-equality/" + carry, "x": fmt.Sprintf("%d:%d", i, j), "expr": expr, "doc": fmt.Sprintf("x=%s (%T) y=%s (%T)", a.text, a.v, b.text, b.v), "ints": true}, Expected: fmt.Sprint(exact), Actual: o.Short()})
				}
			}
		}
	}
}

// c20Floats: the equality laws on numbers carried by Go floats that lie within a few units in the last place of each
// other (and on their exact decimal spellings): equality must be exact equality of values.
func c20Floats(r *core.Run) {
	var fs []float64
	for _, base := range []float64{1, 0.1, 0.3, 100, 1e15, 4503599627370496} {
		x := base
		for k := 0; k < 7; k++ {
			fs = append(fs, x)
			x = math.Nextafter(x, math.Inf(1))
		}
	}
	fs = append(fs, 0.1+0.2, 0, math.Copysign(0, -1), -1, math.Nextafter(-1, 0))
	n := len(fs)
	r.Bound("float_values", n)
	E := make([][]bool, n)
	for i := range fs {
		E[i] = make([]bool, n)
		for j := range fs {
			exact := new(big.Rat).SetFloat64(fs[i]).Cmp(new(big.Rat).SetFloat64(fs[j])) == 0
			for _, carry := range []string{"float64", "float64-vs-decimal-text", "in-arrays", "contains-decimal-text-haystack", "contains-float-haystack", "contains-mixed-haystack"} {
				var d any
				xi, yj := any(fs[i]), any(fs[j])
				text := json.Number(new(big.Rat).SetFloat64(fs[j]).FloatString(80))
				if carry == "float64-vs-decimal-text" {
					yj = text
				}
				d = map[string]any{"x": xi, "y": yj, "l": []any{"filler", xi, nil}}
				expr := prepareImplCached(c20Eq.Text)
				switch carry {
				case "in-arrays":
					expr = prepareImplCached("[x, [x]] == [y, [y]]")
				case "contains-decimal-text-haystack":
					// a float needle, the haystack holds the other value as exact decimal text only
					d = map[string]any{"x": xi, "h": []any{"filler", text, nil}}
					expr = prepareImplCached("contains(h, x)")
				case "contains-float-haystack":
					d = map[string]any{"x": json.Number(new(big.Rat).SetFloat64(fs[i]).FloatString(80)), "h": []any{"filler", fs[j], nil}}
					expr = prepareImplCached("contains(h, x)")
				case "contains-mixed-haystack":
					// floats that differ from every value of the alphabet, around the other value as decimal text
					d = map[string]any{"x": xi, "h": []any{-12345.5, text, float32(-7.25)}}
					expr = prepareImplCached("contains(h, x)")
				}
				o := expr.run(d)
				r.Add("evaluations", 1)
				r.Add("states", 1)
				b, ok := boolOf(o)
				pt := map[string]any{"law": "float-equality/" + carry, "x": fmt.Sprintf("%.17g", fs[i]), "y": fmt.Sprintf("%.17g", fs[j]), "expr": expr.Text, "doc": fmt.Sprintf("x=%.17g y=%.17g (%s)", fs[i], fs[j], carry), "float": true}
				if !ok || b != exact {
					r.Violate(&core.Violation{Sig: "C20/float-equality-is-not-exact/" + carry, Desc: fmt.Sprintf("%s with x=%.17g y=%.17g (%s)", expr.Text, fs[i], fs[j], carry), Point: pt, Expected: fmt.Sprint(exact), Actual: o.Short()})
				}
				if carry == "float64" {
					E[i][j] = b
					ne := c20Ne.run(d)
					c1 := c20Con.run(d)
					r.Add("evaluations", 2)
					if nb, ok := boolOf(ne); !ok || nb == b {
						r.Violate(&core.Violation{Sig: "C20/not-equal-is-not-the-negation/float", Desc: "x != y", Point: pt, Expected: fmt.Sprint(!b), Actual: ne.Short()})
					}
					if cb, ok := boolOf(c1); !ok || cb != b {
						r.Violate(&core.Violation{Sig: "C20/contains-uses-another-relation/float", Desc: "contains([x], y)", Point: pt, Expected: fmt.Sprint(b), Actual: c1.Short()})
					}
				}
			}
		}
	}
	for i := 0; i < n; i++ {
		for j := 0; j < n; j++ {
			if E[i][j] != E[j][i] {
				r.Violate(&core.Violation{Sig: "C20/not-symmetric/float", Desc: "x == y vs y == x", Point: map[string]any{"x": fmt.Sprintf("%.17g", fs[i]), "y": fmt.Sprintf("%.17g", fs[j]), "float": true}, Expected: fmt.Sprint(E[j][i]), Actual: fmt.Sprint(E[i][j])})
			}
			for k := 0; k < n; k++ {
				if E[i][j] && E[j][k] && !E[i][k] {
					r.Violate(&core.Violation{Sig: "C20/not-transitive/float", Desc: "x == y, y == z, x != z", Point: map[string]any{"x": fmt.Sprintf("%.17g", fs[i]), "y": fmt.Sprintf("%.17g", fs[j]), "z": fmt.Sprintf("%.17g", fs[k]), "float": true}, Expected: "true", Actual: "false"})
				}
			}
		}
	}
}

// lazyExpr compiles on first use (nothing of the library may run while the package initialises: C07 observes the
// very first call of a process).
type lazyExpr struct{ Text string }

func (l lazyExpr) run(raw any) core.Obs { return prepareImplCached(l.Text).run(raw) }
