package props

import (
	"encoding/json"
	"fmt"
	"os"
	"path/filepath"
	"sort"
	"strings"

	"github.com/woodsbury/decimal128"
	"github.com/woodsbury/jmespath/internal/verifmc/core"
	"github.com/woodsbury/jmespath/internal/verifmc/ref"
)

type corpusCase struct {
	File   string
	Expr   string
	Given  any
	Result any
	HasRes bool
	Error  string
}

func repoDir() string {
	if d := os.Getenv("REPO"); d != "" {
		return d
	}
	return "/repo"
}

// loadCorpus reads the compliance corpus of the module under test.
func loadCorpus() ([]corpusCase, error) {
	var out []corpusCase
	for _, dir := range []string{"compliance", "extra"} {
		files, _ := filepath.Glob(filepath.Join(repoDir(), "testdata", dir, "*.json"))
		sort.Strings(files)
		for _, f := range files {
			b, err := os.ReadFile(f)
			if err != nil {
				return nil, err
			}
			d := json.NewDecoder(strings.NewReader(string(b)))
			d.UseNumber()
			var suites []struct {
				Given any              `json:"given"`
				Cases []map[string]any `json:"cases"`
			}
			if err := d.Decode(&suites); err != nil {
				return nil, fmt.Errorf("%s: %v", f, err)
			}
			for _, s := range suites {
				for _, c := range s.Cases {
					cc := corpusCase{File: filepath.Base(f), Given: s.Given}
					cc.Expr, _ = c["expression"].(string)
					cc.Error, _ = c["error"].(string)
					if r, ok := c["result"]; ok {
						cc.Result, cc.HasRes = r, true
					}
					out = append(out, cc)
				}
			}
		}
	}
	return out, nil
}

// refConformance runs the corpus through the reference model: every case must
// be reproduced or explicitly undetermined.
func refConformance(verbose bool) (total, agree, abstain int, bad []string) {
	cases, err := loadCorpus()
	if err != nil {
		return 0, 0, 0, []string{err.Error()}
	}
	for _, c := range cases {
		total++
		r := ref.Eval(c.Expr, core.Norm(c.Given))
		if r.U != "" {
			abstain++
			if verbose {
				fmt.Printf("ABSTAIN %s %q: %s\n", c.File, c.Expr, r.U)
			}
			continue
		}
		var want core.Obs
		if c.Error != "" {
			want = core.Obs{Kind: "err", Cats: []string{c.Error}}
		} else {
			want = core.Obs{Kind: "ok", Raw: c.Result, Val: core.Norm(c.Result)}
		}
		// values produced by enumerating object members are compared as multisets
		d := ref.Diff(want, r)
		if d != "" && want.Kind == "ok" && r.Err == nil && sortedEqual(want.Val, r.Val) {
			d = ""
		}
		if d == "" {
			agree++
			continue
		}
		bad = append(bad, fmt.Sprintf("%s %q on %s: corpus %s, reference %s (%s)", c.File, c.Expr, trunc(jsonText(c.Given), 120), want.Short(), r.String(), d))
	}
	return
}

func trunc(s string, n int) string {
	if len(s) > n {
		return s[:n] + "..."
	}
	return s
}

// sortedEqual compares two values with every array sorted by canonical text.
func sortedEqual(a, b any) bool { return core.Canon(sortDeep(a)) == core.Canon(sortDeep(b)) }

func sortDeep(v any) any {
	switch x := v.(type) {
	case []any:
		out := make([]any, len(x))
		for i, e := range x {
			out[i] = sortDeep(e)
		}
		sort.Slice(out, func(i, j int) bool { return core.Canon(out[i]) < core.Canon(out[j]) })
		return out
	case map[string]any:
		out := make(map[string]any, len(x))
		for k, e := range x {
			out[k] = sortDeep(e)
		}
		return out
	}
	return v
}

func init() {
	core.Commands["ref-conformance"] = func(args []string) int {
		total, agree, abstain, bad := refConformance(len(args) > 0 && args[0] == "-v")
		for _, b := range bad {
			fmt.Println("DISAGREE", b)
		}
		fmt.Printf("ref-conformance: %d cases, %d reproduced, %d undetermined (%.1f%%), %d disagree\n", total, agree, abstain, 100*float64(abstain)/float64(total), len(bad))
		if len(bad) > 0 {
			return 2
		}
		return 0
	}
	core.Commands["ref"] = func(args []string) int {
		// jmc ref '<expr>' '<json doc>'
		doc := any(nil)
		if len(args) > 1 {
			doc = core.JSONDoc(args[1])
		}
		for _, st := range []ref.Style{ref.Prose, ref.RefImpl} {
			p := ref.Parse(args[0], st)
			fmt.Printf("style %d: syntax=%v static=%v unsure=%q ast=%s msg=%s\n", st, p.Syntax, p.Static, p.U, p.AST.String(), p.Msg)
		}
		fmt.Println("reference:", ref.Eval(args[0], core.Norm(doc)).String())
		fmt.Println("impl:     ", core.Search(args[0], doc).Short())
		return 0
	}
}

func init() {
	core.Commands["dec"] = func(args []string) int {
		// jmc dec <a> <op> <b>: show what decimal128 does
		a, b := decimal128.MustParse(args[0]), decimal128.MustParse(args[2])
		var c decimal128.Decimal
		switch args[1] {
		case "+":
			c = a.Add(b)
		case "*":
			c = a.Mul(b)
		case "/":
			c = a.Quo(b)
		case "-":
			c = a.Sub(b)
		}
		fmt.Println(c.String(), "inf:", c.IsInf(0), "nan:", c.IsNaN())
		return 0
	}
}
