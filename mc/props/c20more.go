package props

import (
	"encoding/json"
	"fmt"
	"math"
	"strings"

	"github.com/woodsbury/decimal128"
	"github.com/woodsbury/jmespath/internal/verifmc/core"
)

// C20, phase "truthiness-carriers": the five false-like values are null, false, "", [] and {} - a number is never
// false-like, whichever Go type carries it and however it was computed. Every zero (and some non-zero values) in every
// carrier, and every expression of the menu that computes a zero, goes through every truthiness context.

type c20Carrier struct {
	Name   string
	V      any
	Truthy bool
}

func c20Carriers() []c20Carrier {
	dz := decimal128.New(0, 0)
	dnz := dz.Neg()
	dz10 := decimal128.New(0, 10)
	out := []c20Carrier{
		{"json.Number 0", json.Number("0"), true}, {"json.Number 0.0", json.Number("0.0"), true}, {"json.Number -0", json.Number("-0"), true}, {"json.Number 0e5", json.Number("0e5"), true}, {"json.Number 0.000", json.Number("0.000"), true},
		{"int 0", int(0), true}, {"int8 0", int8(0), true}, {"int16 0", int16(0), true}, {"int32 0", int32(0), true}, {"int64 0", int64(0), true},
		{"uint 0", uint(0), true}, {"uint8 0", uint8(0), true}, {"uint16 0", uint16(0), true}, {"uint32 0", uint32(0), true}, {"uint64 0", uint64(0), true},
		{"float32 0", float32(0), true}, {"float64 0", float64(0), true}, {"float64 -0", math.Copysign(0, -1), true}, {"float32 -0", float32(math.Copysign(0, -1)), true},
		{"decimal 0", dz, true}, {"decimal -0", dnz, true}, {"decimal 0E+10", dz10, true},
		{"int 1", int(1), true}, {"int64 -1", int64(-1), true}, {"uint8 7", uint8(7), true}, {"float64 0.5", float64(0.5), true}, {"decimal 1", decimal128.New(1, 0), true}, {"json.Number 1", json.Number("1"), true},
		{"string 0", "0", true}, {"string false", "false", true}, {"string blank", " ", true}, {"array of null", []any{nil}, true}, {"array of empty", []any{[]any{}}, true}, {"object with null", map[string]any{"a": nil}, true}, {"true", true, true},
		{"null", nil, false}, {"false", false, false}, {"empty string", "", false}, {"empty array", []any{}, false}, {"empty object", map[string]any{}, false},
		{"empty array with capacity", make([]any, 0, 4), false},
	}
	return out
}

// expressions that compute a number equal to zero (z is a zero in the carrier under test, e an empty array, zs [z])
var c20ZeroExprs = []string{"z", "length(e)", "length('')", "length(`{}`)", "sum(e)", "sum(zs)", "z - z", "z + z", "z * `5`", "`5` * z", "abs(z)", "-z", "+z", "ceil(z)", "floor(z)", "avg(zs)", "min(zs)", "max(zs)",
	"to_number('0')", "to_number('0.0')", "to_number(to_string(z))", "find_first('ab', 'a')", "find_last('ab', 'a')", "z // `1`", "z % `1`", "z / `1`", "`0`", "`0.0`", "`-0`", "`1` - `1`", "length(e) - z", "zs[0]", "[z][0]", "{k: z}.k",
	"not_null(z)", "not_null(missing, z)", "max_by(objs, &k).k", "min_by(objs, &k).k", "sort(zs)[0]", "sort_by(objs, &k)[0].k", "let $v = z in $v", "z | @", "(z)", "map(&@, zs)[0]", "reverse(zs)[0]", "sum(e) + length(e)"}

func c20RunCarriers(r *core.Run) {
	cs := c20Carriers()
	r.Bound("truthiness_carriers", len(cs))
	r.Bound("zero_computing_expressions", len(c20ZeroExprs))
	n := 0
	for _, c := range cs {
		// (1) the value itself, from the document, in every truthiness context
		for _, ctx := range c20Contexts {
			n++
			if !r.Mine(n) {
				continue
			}
			r.Add("states", 1)
			if v := c20CarrierPoint(r, c, "v", ctx); v != nil {
				r.Violate(v)
			}
		}
		// (2) every expression that computes a zero from it
		if !strings.Contains(c.Name, " 0") && !strings.Contains(c.Name, "-0") || !c.Truthy || strings.HasPrefix(c.Name, "string") {
			continue
		}
		for _, e := range c20ZeroExprs {
			for _, ctx := range c20Contexts {
				n++
				if !r.Mine(n) {
					continue
				}
				r.Add("states", 1)
				if v := c20CarrierPoint(r, c, e, ctx); v != nil {
					r.Violate(v)
				}
			}
		}
	}
}

// a truthiness context: the expression (V = the value expression) and what it must yield for a true-like / false-like V
type c20Context struct {
	Name, Tmpl string
	// Check returns "" when the observation is right for a value that is true-like (truthy) or false-like
	Check func(o core.Obs, v core.Obs, truthy bool) string
}

func c20IsBool(o core.Obs, want bool) string {
	if b, ok := boolOf(o); !ok || b != want {
		return fmt.Sprintf("expected %v", want)
	}
	return ""
}

func c20Same(o, v core.Obs) bool { return o.Kind == "ok" && v.Kind == "ok" && core.Canon(o.Val) == core.Canon(v.Val) }

func c20Is(o core.Obs, text string) bool { return o.Kind == "ok" && core.Canon(o.Val) == text }

var c20Contexts = []c20Context{
	{"not", "!(V)", func(o, v core.Obs, t bool) string { return c20IsBool(o, !t) }},
	{"not-not", "!!(V)", func(o, v core.Obs, t bool) string { return c20IsBool(o, t) }},
	{"or", "(V) || 'other'", func(o, v core.Obs, t bool) string {
		if t && !c20Same(o, v) {
			return "expected the left operand unchanged"
		}
		if !t && !c20Is(o, `"other"`) {
			return "expected the right operand"
		}
		return ""
	}},
	{"and", "(V) && 'other'", func(o, v core.Obs, t bool) string {
		if t && !c20Is(o, `"other"`) {
			return "expected the right operand"
		}
		if !t && !c20Same(o, v) {
			return "expected the left operand unchanged"
		}
		return ""
	}},
	{"filter-current", "[(V)][?@] | length(@)", func(o, v core.Obs, t bool) string {
		// a null element is dropped by the projection in any case
		want := "#0"
		if t {
			want = "#1"
		}
		if !c20Is(o, want) {
			return "expected " + want + " elements"
		}
		return ""
	}},
	{"filter-predicate", "let $t = (V) in `[1, 2]`[?$t] | length(@)", func(o, v core.Obs, t bool) string {
		want := "#0"
		if t {
			want = "#2"
		}
		if !c20Is(o, want) {
			return "expected " + want + " elements"
		}
		return ""
	}},
	{"filter-negated", "let $t = (V) in `[1, 2]`[?!$t].[@] | length(@)", func(o, v core.Obs, t bool) string {
		want := "#2"
		if t {
			want = "#0"
		}
		if !c20Is(o, want) {
			return "expected " + want + " elements"
		}
		return ""
	}},
	{"and-or", "((V) && 'yes') || 'no'", func(o, v core.Obs, t bool) string {
		want := `"no"`
		if t {
			want = `"yes"`
		}
		if !c20Is(o, want) {
			return "expected " + want
		}
		return ""
	}},
	{"or-chain", "`null` || (V) || `false`", func(o, v core.Obs, t bool) string {
		if t && !c20Same(o, v) {
			return "expected the middle operand"
		}
		if !t && !c20Is(o, "false") {
			return "expected the last operand"
		}
		return ""
	}},
}

func c20CarrierDoc(c c20Carrier) map[string]any {
	return map[string]any{"v": c.V, "z": c.V, "e": []any{}, "zs": []any{c.V}, "objs": []any{map[string]any{"k": c.V}, map[string]any{"k": c.V}}}
}

func c20CarrierPoint(r *core.Run, c c20Carrier, valueExpr string, ctx c20Context) *core.Violation {
	d := c20CarrierDoc(c)
	v := prepareImplCached(valueExpr).run(d)
	truthy := c.Truthy
	if valueExpr != "v" {
		// the expression computes a number: numbers are true-like. (If it fails for this carrier - e.g. to_number of a
		// spelling - there is nothing to judge here.)
		if v.Kind != "ok" {
			return nil
		}
		if _, isNum := v.Val.(*core.Num); !isNum {
			return nil
		}
		truthy = true
	}
	text := strings.ReplaceAll(ctx.Tmpl, "V", valueExpr)
	r.Begin(map[string]any{"expr": text, "doc": c.Name})
	o := prepareImplCached(text).run(d)
	r.Eval(o)
	r.Add("transitions", 1)
	if msg := ctx.Check(o, v, truthy); msg != "" {
		return &core.Violation{Sig: "C20/truthiness-depends-on-carrier/" + ctx.Name + "/" + valueExpr, Desc: fmt.Sprintf("Search(%q) with z = v = %s, e = [], zs = [z], objs = [{k: z}, {k: z}]", text, c.Name),
			Point: map[string]any{"carrier": c.Name, "value": valueExpr, "ctx": ctx.Name, "expr": text, "doc": c.Name, "carriers": true}, Expected: fmt.Sprintf("the value %s is true-like = %v: %s", v.Short(), truthy, msg), Actual: o.Short()}
	}
	return nil
}

func c20CarrierJudge(r *core.Run, pt map[string]any) *core.Violation {
	for _, c := range c20Carriers() {
		if c.Name != pstr(pt, "carrier") {
			continue
		}
		for _, ctx := range c20Contexts {
			if ctx.Name == pstr(pt, "ctx") {
				return c20CarrierPoint(r, c, pstr(pt, "value"), ctx)
			}
		}
	}
	return nil
}

// C20, phase "shared-subvalues": equality is member-wise also when the same container object occurs more than once in
// an operand. For every ordered pair (x, y) of the value alphabet: [x, x] == [x, y], [x, y] == [x, x], {p: x, q: x} ==
// {p: x, q: y}, contains([[x, x]], [x, y]) and the same comparisons on operands built in Go from shared values must all
// agree with x == y.
var c20SharedForms = []string{"[x, x] == [x, y]", "[x, y] == [x, x]", "[x, x] != [x, y]", "{p: x, q: x} == {p: x, q: y}", "contains([[x, x]], [x, y])", "l2 == r2", "r2 == l2", "[x, [x]] == [x, [y]]", "[[x], x, x] == [[x], x, y]",
	"m2 == n2", "contains(h2, r2)"}

func c20RunShared(r *core.Run) {
	vals := c20Values(r.Thorough())
	r.Bound("shared_subvalue_alphabet", len(vals))
	r.Bound("shared_subvalue_forms", len(c20SharedForms))
	for i, x := range vals {
		if !r.Mine(i) || r.Expired() {
			continue
		}
		for j, y := range vals {
			r.Add("states", 1)
			if v := c20SharedPoint(r, x, y, i, j); v != nil {
				r.Violate(v)
			}
		}
	}
}

func c20SharedPoint(r *core.Run, x, y doc, i, j int) *core.Violation {
	d := map[string]any{"x": x.Raw, "y": y.Raw, "l2": []any{x.Raw, x.Raw}, "r2": []any{x.Raw, y.Raw}, "m2": map[string]any{"p": x.Raw, "q": x.Raw}, "n2": map[string]any{"p": x.Raw, "q": y.Raw},
		"h2": []any{"filler", []any{x.Raw, x.Raw}}}
	base := c20Eq.run(d)
	eq, ok := boolOf(base)
	if !ok {
		return nil
	}
	for _, f := range c20SharedForms {
		want := eq
		if strings.Contains(f, "!=") {
			want = !eq
		}
		r.Begin(map[string]any{"expr": f, "doc": "x=" + x.Text + " y=" + y.Text})
		o := prepareImplCached(f).run(d)
		r.Eval(o)
		r.Add("transitions", 1)
		if b, ok := boolOf(o); !ok || b != want {
			return &core.Violation{Sig: "C20/equality-is-not-member-wise-on-shared-values/" + f, Desc: fmt.Sprintf("Search(%q) with x=%s y=%s (l2 = [x, x], r2 = [x, y], m2 = {p: x, q: x}, n2 = {p: x, q: y}, h2 = ['filler', [x, x]], built from the same Go values)", f, x.Text, y.Text),
				Point: map[string]any{"x": x.Text, "y": y.Text, "form": f, "expr": f, "doc": "x=" + x.Text + " y=" + y.Text, "shared": true}, Expected: fmt.Sprintf("%v (x == y is %v)", want, eq), Actual: o.Short()}
		}
	}
	return nil
}

func c20SharedJudge(r *core.Run, pt map[string]any) *core.Violation {
	return c20SharedPoint(r, mkDoc(pstr(pt, "x")), mkDoc(pstr(pt, "y")), 0, 0)
}
