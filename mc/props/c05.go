package props

import (
	"encoding/json"
	"fmt"
	"math/big"
	"strings"

	"github.com/woodsbury/decimal128"
	"github.com/woodsbury/jmespath/internal/verifmc/core"
	"github.com/woodsbury/jmespath/internal/verifmc/ref"
)

// C05 — arithmetic on JSON numbers is exact decimal arithmetic (form G over
// operands; oracle = math/big through the reference's Arith).

func c05Coefficients(thorough bool) []string {
	c := []string{"0", "1", "2", "3", "7", "10", "15", "99", "10000000000000001", "9007199254740993", "9223372036854775808",
		"9999999999999999999999999999999999", "1234567890123456789012345678901234", "5000000000000000000000000000000000"}
	if thorough {
		c = append(c, "5", "9", "25", "9999999999999999", "9223372036854775807", "1000000000000000000000000000000000",
			"4999999999999999999999999999999999", "5000000000000000000000000000000001", "3333333333333333333333333333333333")
	}
	return c
}

func c05Exponents(thorough bool) []int {
	e := []int{-6176, -40, -34, -2, -1, 0, 1, 17, 34, 6111}
	if thorough {
		e = append(e, -6143, -17, 33, 6110, 6144, 6077)
	}
	return e
}

func c05Operands(thorough bool) []string {
	seen := map[string]bool{}
	var out []string
	add := func(s string) {
		if !seen[s] {
			seen[s] = true
			out = append(out, s)
		}
	}
	for _, s := range []string{"0.1", "0.2", "0.3", "1e400", "-0", "1.5", "2.5", "-2.5", "100", "0.001"} {
		add(s)
	}
	for _, c := range c05Coefficients(thorough) {
		for _, e := range c05Exponents(thorough) {
			if c != "0" && len(c)+e-1 > 6144 {
				continue // beyond the decimal128 range: not a deliverable operand
			}
			for _, sign := range []string{"", "-"} {
				if e == 0 {
					add(sign + c)
				} else {
					add(fmt.Sprintf("%s%se%d", sign, c, e))
				}
			}
		}
	}
	return out
}

var c05BinOps = []string{"+", "-", "−", "*", "×", "/", "÷", "//", "%"}
var c05CmpOps = []string{"<", "<=", ">", ">=", "==", "!="}
var c05Deliveries = []string{"json.Number", "literal", "decimal128"}

func init() {
	core.Register(&core.Check{
		ID:    "C05",
		Title: "arithmetic on JSON numbers is exact decimal arithmetic",
		Rule: "every ordered pair of the operand alphabet (coefficients x exponents x signs across the decimal128 range) goes through each of the 9 arithmetic operator spellings and 6 comparators, every single operand through unary +/-, abs, ceil, floor and to_number, " +
			"every triple of a sub-alphabet through sum and avg; each operand is delivered as json.Number, as a backtick literal and as a decimal128 value; the result is compared with the exact rational result from math/big " +
			"(exact when representable in 34 digits, within one unit of the 34th digit otherwise, not-a-number error on division by zero and overflow); non-trivial = a non-zero number or true; distinct_nontrivial counts distinct such outcomes",
		Phases: []core.Phase{{Name: "arith", Build: "instr", Fn: c05Run}, {Name: "compose", Build: "instr", Fn: composeRun("C05", 1)}},
		Judge:  c05Judge,
		Assumptions: []string{
			"operands have at most 34 significant digits and lie in the normal decimal128 range (others are abstained)",
			"// and % are judged for operands of equal sign only; results in the subnormal range are abstained",
		},
	})
}

type c05Point struct {
	Form     string // "bin", "cmp", "cmp-array", "unary", "func", "to_number", "sum", "avg"
	Op       string
	X, Y, Z  string
	Delivery string
}

func (p c05Point) build() (expr string, raw any, norm any) {
	if p.Form == "avg-list" || p.Form == "sum-list" {
		// X is a comma-separated list of operands: the whole array under avg / sum
		fn := strings.TrimSuffix(p.Form, "-list")
		var rs, ns []any
		for _, v := range strings.Split(p.X, ",") {
			var carrier any = json.Number(v)
			if p.Delivery == "decimal128" {
				d, err := decimal128.Parse(v)
				if err != nil {
					panic("c05: cannot parse " + v)
				}
				carrier = d
			}
			rs = append(rs, carrier)
			n, _ := core.NumOf(json.Number(v))
			ns = append(ns, n)
		}
		if p.Delivery == "literal" {
			return fn + "(`[" + p.X + "]`)", nil, nil
		}
		return fn + "(x)", map[string]any{"x": rs}, map[string]any{"x": ns}
	}
	names := []string{"x", "y", "z"}
	vals := []string{p.X, p.Y, p.Z}
	ref := func(i int) string {
		if p.Delivery == "literal" {
			return "`" + vals[i] + "`"
		}
		return names[i]
	}
	switch p.Form {
	case "bin", "cmp":
		expr = ref(0) + " " + p.Op + " " + ref(1)
	case "bin-in-map":
		expr = "let $p = " + ref(0) + " in map(&($p " + p.Op + " @), [" + ref(1) + "])[0]"
	case "bin-in-projection":
		expr = "let $p = " + ref(0) + " in [" + ref(1) + "][*].[$p " + p.Op + " @] | [0][0]"
	case "cmp-array":
		expr = "[" + ref(0) + "] " + p.Op + " [" + ref(1) + "]"
	case "unary":
		expr = p.Op + ref(0)
	case "func":
		expr = p.Op + "(" + ref(0) + ")"
	case "to_number":
		expr = "to_number('" + p.X + "')"
	case "sum", "avg":
		expr = p.Form + "([" + ref(0) + ", " + ref(1) + ", " + ref(2) + "])"
	}
	rm := map[string]any{}
	nm := map[string]any{}
	for i, v := range vals {
		if v == "" {
			continue
		}
		var carrier any = json.Number(v)
		if p.Delivery == "decimal128" {
			d, err := decimal128.Parse(v)
			if err != nil {
				panic("c05: cannot parse " + v)
			}
			carrier = d
		}
		rm[names[i]] = carrier
		n, _ := core.NumOf(json.Number(v))
		nm[names[i]] = n
	}
	return expr, rm, nm
}

func (p c05Point) toMap() map[string]any {
	e, _, _ := p.build()
	return map[string]any{"form": p.Form, "op": p.Op, "x": p.X, "y": p.Y, "z": p.Z, "delivery": p.Delivery, "expr": e,
		"doc": fmt.Sprintf(`{"x":%s,"y":%s,"z":%s}`, orNull(p.X), orNull(p.Y), orNull(p.Z))}
}

func orNull(s string) string {
	if s == "" {
		return "null"
	}
	return s
}

func c05Check(r *core.Run, p c05Point) *core.Violation {
	expr, raw, norm := p.build()
	want := ref.Eval(expr, norm)
	o := core.Search(expr, raw)
	r.Eval(o)
	r.Add("transitions", 1)
	if want.U != "" {
		r.AbstainOn(want.U)
		r.Add("oracle_abstained", 1)
		if o.Kind == "panic" {
			return &core.Violation{Sig: "C05/panic/" + p.Form + "/" + p.Op, Desc: fmt.Sprintf("Search(%q) with %s operands %s %s %s", expr, p.Delivery, p.X, p.Y, p.Z),
				Point: p.toMap(), Expected: "a value or an error", Actual: o.Short()}
		}
		return nil
	}
	r.Add("oracle_determinate", 1)
	k := ref.Diff(o, want)
	if k == "" {
		// never an infinity or NaN *value*
		if n, ok := o.Val.(*core.Num); ok && (n.Special != "" || n.Bad != "") {
			k = "infinity-or-nan-value"
		}
	}
	if k == "" {
		return nil
	}
	class := "exact"
	if want.Approx {
		class = "rounded"
	} else if want.IsError() {
		class = "error"
	}
	return &core.Violation{Sig: "C05/" + k + "/" + p.Form + "/" + p.Op + "/" + class + "/" + p.Delivery,
		Desc:  fmt.Sprintf("Search(%q) with %s operands x=%s y=%s z=%s", expr, p.Delivery, p.X, p.Y, p.Z),
		Point: p.toMap(), Expected: want.String() + exactDecimal(want), Actual: o.Short()}
}

func exactDecimal(w ref.Res) string {
	n, ok := w.Val.(*core.Num)
	if !ok || n.R == nil {
		return ""
	}
	return " (= " + ratDecimal(n.R, 40) + ")"
}

// ratDecimal renders a rational with the given number of significant digits.
func ratDecimal(r *big.Rat, digits int) string {
	if r.Sign() == 0 {
		return "0"
	}
	mag := ref.Magnitude(r)
	scaled := new(big.Rat).Mul(r, pow10Rat(digits-1-mag))
	q := new(big.Int).Quo(scaled.Num(), scaled.Denom())
	return fmt.Sprintf("%se%d", q.String(), mag-(digits-1))
}

func pow10Rat(e int) *big.Rat {
	x := new(big.Int).Exp(big.NewInt(10), big.NewInt(int64(absInt(e))), nil)
	if e >= 0 {
		return new(big.Rat).SetInt(x)
	}
	return new(big.Rat).SetFrac(big.NewInt(1), x)
}

func absInt(i int) int {
	if i < 0 {
		return -i
	}
	return i
}

func c05Run(r *core.Run) {
	ops := c05Operands(r.Thorough())
	r.Bound("operands", len(ops))
	r.Bound("coefficients", c05Coefficients(r.Thorough()))
	r.Bound("exponents", c05Exponents(r.Thorough()))
	r.Bound("deliveries", c05Deliveries)
	sub := ops
	if len(sub) > 40 {
		// sub-alphabet for sum/avg: every 7th operand plus the decimal fractions
		sub = append([]string{}, ops[:10]...)
		sub = append(sub, "1", "-1", "9223372036854775807", "-9223372036854775808", "-9223372036854775807", "9223372036854775808", "9007199254740993", "1e34", "-1e34", "9999999999999999999999999999999999")
		for i := 10; i < len(ops); i += len(ops)/22 + 1 {
			sub = append(sub, ops[i])
		}
	}
	r.Bound("sum_avg_operands", len(sub))
	n := 0
	do := func(p c05Point) {
		r.Add("states", 1)
		pm := map[string]any{"expr": p.Form + " " + p.Op, "doc": p.X + " " + p.Y + " " + p.Z + " " + p.Delivery}
		r.Begin(pm)
		if v := c05Check(r, p); v != nil {
			r.Violate(v)
		}
		n++
		if n%1009 == 0 {
			r.Sample(func() any { return p.toMap() })
		}
	}
	for i, x := range ops {
		if !r.Mine(i) {
			continue
		}
		if r.Expired() {
			return
		}
		for _, dl := range c05Deliveries {
			for _, u := range []string{"-", "+", "−"} {
				do(c05Point{Form: "unary", Op: u, X: x, Delivery: dl})
			}
			for _, f := range []string{"abs", "ceil", "floor", "to_number"} {
				do(c05Point{Form: "func", Op: f, X: x, Delivery: dl})
			}
		}
		if !strings.HasPrefix(x, "-0") {
			do(c05Point{Form: "to_number", X: x, Delivery: "text"})
		}
		for _, y := range ops {
			for _, dl := range c05Deliveries {
				for _, op := range c05BinOps {
					do(c05Point{Form: "bin", Op: op, X: x, Y: y, Delivery: dl})
				}
				for _, op := range c05CmpOps {
					do(c05Point{Form: "cmp", Op: op, X: x, Y: y, Delivery: dl})
				}
				do(c05Point{Form: "cmp-array", Op: "==", X: x, Y: y, Delivery: dl})
				if dl == "json.Number" {
					for _, op := range []string{"/", "%", "*", "+"} {
						do(c05Point{Form: "bin-in-map", Op: op, X: x, Y: y, Delivery: dl})
						do(c05Point{Form: "bin-in-projection", Op: op, X: x, Y: y, Delivery: dl})
					}
				}
			}
		}
	}
	// plain-notation spellings far longer than the canonical form of the same number, through to_number and the operators
	zeros := func(n int) string { return strings.Repeat("0", n) }
	for _, t := range []string{"0." + zeros(43) + "1", "25" + zeros(42), "1.5" + zeros(42), "-0." + zeros(60) + "25", "1" + zeros(100), "0." + zeros(100) + "1", zeros(50) + "7", "7." + zeros(80), "-" + zeros(45) + "1.50"} {
		for _, dl := range c05Deliveries {
			do(c05Point{Form: "to_number", X: t, Delivery: dl})
			do(c05Point{Form: "bin", Op: "+", X: t, Y: "1", Delivery: dl})
			do(c05Point{Form: "bin", Op: "*", X: t, Y: "2", Delivery: dl})
			do(c05Point{Form: "cmp", Op: "==", X: t, Y: t, Delivery: dl})
			do(c05Point{Form: "func", Op: "abs", X: t, Delivery: dl})
		}
	}
	li := 0
	c05Lists(r.Thorough(), func(p c05Point) {
		li++
		if r.Mine(li / 6) {
			do(p)
		}
	})
	for i, x := range sub {
		if !r.Mine(i) {
			continue
		}
		if r.Expired() {
			return
		}
		for _, y := range sub {
			for _, z := range sub {
				for _, dl := range c05Deliveries {
					do(c05Point{Form: "sum", X: x, Y: y, Z: z, Delivery: dl})
					do(c05Point{Form: "avg", X: x, Y: y, Z: z, Delivery: dl})
				}
			}
		}
	}
}

// c05Lists: every array of 4..7 (thorough: 8) small integers, and of 4..5 mixed-scale decimals, under avg and sum: the exact
// mean of a few small integers is always representable, whatever the means of its prefixes are.
func c05Lists(thorough bool, do func(c05Point)) {
	maxLen := 7
	if thorough {
		maxLen = 8
	}
	var rec func(prefix []string, alpha []string, max int)
	rec = func(prefix []string, alpha []string, max int) {
		if len(prefix) >= 4 {
			for _, dl := range c05Deliveries {
				do(c05Point{Form: "avg-list", X: strings.Join(prefix, ","), Delivery: dl})
				do(c05Point{Form: "sum-list", X: strings.Join(prefix, ","), Delivery: dl})
			}
		}
		if len(prefix) == max {
			return
		}
		for _, a := range alpha {
			rec(append(prefix[:len(prefix):len(prefix)], a), alpha, max)
		}
	}
	rec(nil, []string{"0", "1", "2"}, maxLen)
	rec(nil, []string{"0.1", "7", "-3", "1e33", "2.5"}, 5)
}

func c05Judge(r *core.Run, phase string, pt map[string]any) *core.Violation {
	if phase == "compose" {
		return composeJudge(r, "C05", pt)
	}
	return c05Check(r, c05Point{Form: pstr(pt, "form"), Op: pstr(pt, "op"), X: pstr(pt, "x"), Y: pstr(pt, "y"), Z: pstr(pt, "z"), Delivery: pstr(pt, "delivery")})
}
