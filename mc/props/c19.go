package props

import (
	"fmt"
	"strings"

	"github.com/woodsbury/jmespath/internal/verifmc/core"
	"github.com/woodsbury/jmespath/internal/verifmc/ref"
)

// C19 — let-bindings are lexically scoped and capture the value at binding
// time (form G, differential vs the reference's immutable environment chain).

var c19Bindings = []string{"a", "b", "@", "`1`", "$x", "$y", "a[0]", "a[*].b", "length(@)"}

// body templates; V and W stand for variable references
var c19Bodies = []string{
	"V", "[V, W]", "{k: V}", "a[*].[V]", "a[*].{k: V, c: @}", "a[?V]", "a[?b == V]", "a[?@ == V]", "*.[V]", "a.*.[V, @]",
	"a | V", "a | [V, @]", "a[0] | [V]", "(V)", "V.b", "V[0]", "V[*]", "V || a", "V && W", "!V", "V == W", "V == a",
	"map(&V, a)", "map(&[V, @], a)", "map(&[V, W], a)", "sort_by(a, &V)", "max_by(a, &V)", "min_by(a, &[V][0])", "group_by(a, &V)",
	"sort_by(a, &b)[*].[V]", "a[*].[map(&V, @)]", "not_null(V, W)", "[V][?@ == V]", "a[].[V]", "a[1:].[V]", "$.a[*].[V]", "[$, V]",
}

func c19Fill(t, v, w string) string {
	return strings.ReplaceAll(strings.ReplaceAll(t, "V", v), "W", w)
}

type c19Expr struct {
	Text  string
	Shape string
}

func c19Expressions(thorough bool) []c19Expr {
	var out []c19Expr
	seen := map[string]bool{}
	add := func(text, shape string) {
		if !seen[text] {
			seen[text] = true
			out = append(out, c19Expr{text, shape})
		}
	}
	bodies := func(f func(body, tmpl string)) {
		for _, t := range c19Bodies {
			f(c19Fill(t, "$x", "$y"), t)
			f(c19Fill(t, "$y", "$x"), t)
			f(c19Fill(t, "$x", "$x"), t)
		}
	}
	for _, b1 := range c19Bindings {
		bodies(func(body, t string) {
			add("let $x = "+b1+" in "+body, "let1/"+t)
			// use after the body has ended
			add("[let $x = "+b1+" in "+body+", $x]", "after-body/"+t)
			// ... also inside a filter, a projection and an expression reference, where the variable is looked up per element
			add("[let $x = "+b1+" in "+body+", a[?b == $x]]", "after-body-in-filter/"+t)
			add("[a[?b == $x].b, let $x = "+b1+" in "+body+"]", "before-let-in-filter/"+t)
			add("[let $x = "+b1+" in "+body+", a[*].[$x]]", "after-body-in-projection/"+t)
			add("[let $x = "+b1+" in "+body+", map(&$x, a)]", "after-body-in-expref/"+t)
			add("[let $x = "+b1+" in "+body+", a[?@ == $x || b == $x]]", "after-body-in-filter-or/"+t)
			// the let under a context-changing construct
			add("a[*].[let $x = "+b1+" in "+body+"]", "let-in-projection/"+t)
			add("a | (let $x = "+b1+" in "+body+")", "let-after-pipe/"+t)
			add("map(&(let $x = "+b1+" in "+body+"), a)", "let-in-expref/"+t)
		})
		for _, b2 := range c19Bindings {
			bodies(func(body, t string) {
				add("let $x = "+b1+", $y = "+b2+" in "+body, "let2/"+t)
				add("let $x = "+b1+" in let $y = "+b2+" in "+body, "nested/"+t)
				add("let $x = "+b1+" in let $x = "+b2+" in "+body, "shadow/"+t)
				add("let $x = "+b1+" in [let $x = "+b2+" in "+body+", $x]", "shadow-ends/"+t)
				add("let $x = "+b1+" in a[*].[let $y = "+b2+" in "+body+"]", "nested-in-projection/"+t)
				add("let $y = "+b2+" in (let $x = "+b1+" in "+body+") | [$y, @]", "let-then-pipe/"+t)
				// an inner let that rebinds only one of the outer names
				add("let $x = "+b1+", $y = "+b2+" in let $x = b in "+body, "partial-rebind/"+t)
				add("let $x = "+b1+", $y = "+b2+" in let $y = @ in let $x = a in "+body, "partial-rebind-3/"+t)
				// a binding must not leak out of its let into the enclosing scope
				add("let $x = "+b1+" in [let $y = "+b2+" in "+body+", $y]", "leak-list/"+t)
				add("let $x = "+b1+" in {p: let $y = "+b2+" in "+body+", q: $y}", "leak-hash/"+t)
				// a binding the body never mentions is evaluated all the same: its faults are reported
				add("let $x = "+b1+", $u = $nope in "+body, "unused-faulty-binding/"+t)
				add("let $x = "+b1+" in let $u = $y in "+body, "unused-faulty-binding-nested/"+t)
				add("let $x = "+b1+", $u = abs('s') in "+body, "unused-faulty-binding-type/"+t)
				add("let $x = "+b1+" in let $y = $x, $u = $y in "+body, "unused-sibling-reference/"+t)
				// a let inside a binding expression that rebinds an outer name in terms of its outer value
				add("let $x = "+b1+" in let $y = (let $x = [$x, "+b2+"] in $x) in "+body, "rebind-in-binding/"+t)
				add("let $x = "+b1+" in let $x = "+b2+" in let $y = (let $x = [$x] in $x) in "+body, "rebind-in-binding-shadowed/"+t)
				add("let $x = "+b1+", $y = (let $x = "+b2+" in [$x]) in "+body, "let-in-binding/"+t)
				add("let $y = "+b2+" in let $x = (let $y = "+b1+" in $y) in "+body, "let-in-binding-nested/"+t)
				// lets nested inside a projection: the outer one is rebound per element, the inner one aliases it
				add("a[*].[let $x = "+b1+" in let $y = "+b2+" in "+body+"]", "nested-inside-projection/"+t)
				add("map(&(let $x = "+b1+" in let $y = "+b2+" in "+body+"), a)", "nested-inside-expref/"+t)
			})
			// two lets side by side: the second one sees neither the first one's names nor its values (a scope recycled
			// from the first let would)
			for _, body := range []string{"$x", "[$x, $y]", "a[*].[$x]", "a[?b == $x]", "map(&$x, a)"} {
				add("[let $x = "+b1+" in $x, let $y = "+b2+" in "+body+"]", "sibling-lets/"+body)
				add("let $x = "+b1+" in [let $x = "+b2+" in $x, let $y = `0` in "+body+"]", "sibling-lets-under-outer/"+body)
				add("a[*].[let $x = "+b1+" in $x, let $y = "+b2+" in "+body+"]", "sibling-lets-in-projection/"+body)
				add("[let $x = "+b1+", $y = "+b2+" in $y, let $y = `0` in "+body+"]", "sibling-lets-two-names/"+body)
				add("(let $x = "+b1+" in $x) | (let $y = "+b2+" in "+body+")", "sibling-lets-piped/"+body)
			}
			if !thorough {
				continue
			}
			for _, b3 := range c19Bindings[:7] {
				for _, t := range c19Bodies[:14] {
					body := c19Fill(t, "$x", "$y")
					add("let $x = "+b1+" in let $y = "+b2+" in let $x = "+b3+" in "+body, "nested3/"+t)
					add("let $x = "+b1+", $y = "+b2+" in [let $x = "+b3+" in "+body+", "+body+"]", "nested3-ends/"+t)
				}
			}
		}
	}
	// layout: the same let forms with every blank replaced by a tab, a line break, CR LF, two blanks, and with the
	// blanks that the grammar does not need removed
	base := append([]c19Expr{}, out...)
	for i, e := range base {
		if i%11 != 0 || strings.ContainsAny(e.Text, "'`\"") {
			continue
		}
		for _, ws := range []string{"\t", "\n", "\r\n", "  ", "\n\t "} {
			add(strings.ReplaceAll(e.Text, " ", ws), "layout/"+e.Shape)
		}
		tight := strings.NewReplacer(" = ", "=", ", ", ",", "let $", "let$", " in [", " in[", " in (", " in(", " in $", " in$", " | ", "|").Replace(e.Text)
		add(tight, "layout-tight/"+e.Shape)
	}
	return out
}

func c19Docs(thorough bool) []doc {
	texts := []string{
		`{"a":[{"b":1},{"b":2}],"b":1}`, `{"a":[{"b":2,"a":1},{"b":1}],"b":2}`, `{"a":[1,2],"b":[1]}`, `{"a":[[1],[2]],"b":null}`, `{"a":{"b":[1],"c":{"b":1}},"b":"s"}`,
		`{"a":"s","b":1}`, `{"a":null,"b":1}`, `{"a":[],"b":{}}`, `[{"a":[1]},{"b":2}]`, `[1,2]`, `null`, `"s"`, `1`, `{}`, `[]`,
		`{"a":[{"b":"y"},{"b":"x"},{"b":"y"}],"b":"x"}`, `{"a":[{"a":[{"b":1}],"b":[1]}],"b":[{"b":1}]}`, `{"a":[null,{"b":null},{"b":1}],"b":null}`,
		`{"a":[0,1],"b":0}`, `{"a":[{"b":1,"c":[1,2]},{"b":1,"c":[]}],"b":1}`,
	}
	docs := make([]doc, 0, len(texts))
	for _, t := range texts {
		docs = append(docs, mkDoc(t))
	}
	all := c01Docs(false)
	step := 7
	if thorough {
		step = 1
	}
	for i := 0; i < len(all); i += step {
		docs = append(docs, all[i])
	}
	return docs
}

func init() {
	core.Register(&core.Check{
		ID:    "C19",
		Title: "let-bindings are lexically scoped and capture the value at binding time",
		Rule: "every let form of the stated menu (one and two bindings, nesting, shadowing, shadow ending, uses after the body, lets under projections, pipes and expression references) with every binding expression and every body template " +
			"is evaluated on every document and compared with the reference interpreter (immutable environment chain); non-trivial = a non-null, non-empty value; distinct_nontrivial counts distinct such outcomes",
		Phases: []core.Phase{{Name: "scoping", Build: "instr", Fn: c19Run}},
		Judge:  c19Judge,
		Assumptions: []string{
			"the oracle is the reference interpreter: bindings of one let are evaluated in the scope and current node of the let, the body sees all of them, expression references capture their environment",
			"a let that binds the same name twice is not pinned (abstained)",
		},
	})
}

func c19Run(r *core.Run) {
	if bad := refSelfCheck(); bad != "" {
		r.InternalError(bad)
		return
	}
	exprs := c19Expressions(r.Thorough())
	docs := c19Docs(r.Thorough())
	r.Bound("expressions", len(exprs))
	r.Bound("documents", len(docs))
	r.Bound("bindings", c19Bindings)
	r.Bound("body_templates", len(c19Bodies))
	for i, e := range exprs {
		if !r.Mine(i) {
			continue
		}
		if r.Expired() {
			break
		}
		c := prepare(e.Text)
		r.Add("states", 1)
		for di, d := range docs {
			r.Begin(map[string]any{"expr": e.Text, "doc": d.Text})
			if v := c19Point(r, c, e.Shape, d); v != nil {
				r.Violate(v)
			}
			if di%53 == 0 {
				r.Sample(func() any { return map[string]any{"expr": e.Text, "doc": d.Text} })
			}
		}
	}
}

func c19Point(r *core.Run, c *compiled, shape string, d doc) *core.Violation {
	want := c.refEval(d.Norm)
	o := c.run(d.Raw)
	r.Eval(o)
	r.Add("transitions", 1)
	if want.U != "" {
		r.AbstainOn(want.U)
		r.Add("oracle_abstained", 1)
		return nil
	}
	r.Add("oracle_determinate", 1)
	k := ref.Diff(o, want)
	if k == "" {
		return nil
	}
	return &core.Violation{Sig: "C19/" + k + "/" + shape, Desc: fmt.Sprintf("Search(%q, %s)", c.Text, d.Text),
		Point: map[string]any{"expr": c.Text, "doc": d.Text, "shape": shape}, Expected: want.String(), Actual: o.Short()}
}

func c19Judge(r *core.Run, phase string, pt map[string]any) *core.Violation {
	return c19Point(r, prepare(pstr(pt, "expr")), pstr(pt, "shape"), mkDoc(pstr(pt, "doc")))
}
