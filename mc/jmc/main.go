// Command jmc is the model-checking harness. It is compiled as a virtual
// package of the module under test (go build -overlay), see bin/build.
package main

import (
	"fmt"
	"os"
	"strconv"

	"github.com/woodsbury/jmespath/internal/verifmc/core"
	_ "github.com/woodsbury/jmespath/internal/verifmc/props"
)

func main() {
	if len(os.Args) < 2 {
		usage()
	}
	switch os.Args[1] {
	case "run":
		if len(os.Args) != 4 {
			usage()
		}
		os.Exit(core.ParentMain(os.Args[2], os.Args[3]))
	case "shard":
		if len(os.Args) != 8 {
			usage()
		}
		i, _ := strconv.Atoi(os.Args[5])
		n, _ := strconv.Atoi(os.Args[6])
		os.Exit(core.ShardMain(os.Args[2], os.Args[3], os.Args[4], i, n, os.Args[7]))
	case "judge":
		os.Exit(core.JudgeMain(os.Args[2]))
	case "replay":
		os.Exit(core.ReplayMain(os.Args[2]))
	case "list":
		for _, id := range core.IDs() {
			fmt.Println(id)
		}
	default:
		if f := core.Commands[os.Args[1]]; f != nil {
			os.Exit(f(os.Args[2:]))
		}
		usage()
	}
}

func usage() {
	fmt.Fprintln(os.Stderr, "usage: jmc run <ID> <quick|thorough> | shard ... | judge <file> | replay <file> | list | <command> ...")
	os.Exit(2)
}
