// Package sched is a cooperative controlled scheduler for the instrumented
// build: the library yields at every function entry (verifrt.Yield), and the
// scheduler decides which goroutine runs between two yields. Exactly one
// goroutine runs at any time, so an execution is fully described by its
// sequence of choices and can be replayed.
package sched

import (
	"fmt"

	"github.com/woodsbury/jmespath/internal/verifrt"
)

// Task is one goroutine of a scenario.
type Task struct {
	ID     int
	Fn     func()
	resume chan struct{}
	done   bool
	site   string // where it is parked
	Yields int    // yield points passed so far
	waits  any    // non-nil: blocked until Wake is called with this key (a modelled lock)
}

// Step is one scheduling decision of an execution.
type Step struct {
	Enabled []int  // ids of the tasks that could run, canonical order: the running one first (if still enabled), then ascending ids
	Chosen  int    // index into Enabled
	Task    int    // id of the chosen task
	Site    string // the yield site the chosen task was parked at ("start" before its first step)
	Running int    // id of the task that ran the previous step (-1 at the start)
}

// Exec is one complete execution.
type Exec struct {
	Steps   []Step
	Aborted string // non-empty: the execution was stopped (by the state callback)
}

type event struct {
	task *Task
	done bool
	pan  any
}

// Deadlock is the Aborted text of an execution in which every unfinished task waits for a lock.
const Deadlock = "deadlock: every unfinished goroutine waits for a lock"

// Run executes the tasks under the given choice prefix; beyond the prefix
// choice 0 is taken (keep running the current task, else the lowest id).
// atState is called before every decision with the execution so far; returning
// false stops the questions: the execution is finished with default choices,
// still one task at a time. A task that waits for a modelled lock (verifrt.Block)
// is not enabled until the lock is released; when every unfinished task waits,
// the execution is a deadlock (Exec.Aborted == Deadlock) and the tasks are
// unwound. A choice out of range in the prefix is a replay divergence and panics.
func Run(tasks []*Task, prefix []int, atState func(x *Exec, tasks []*Task) bool) (x *Exec) {
	x = &Exec{}
	events := make(chan event)
	var running *Task
	verifrt.Sched = func(site string) {
		t := running
		if t == nil || verifrt.Aborting {
			return // not under the scheduler (set-up code), or unwinding after a deadlock
		}
		t.site = site
		t.Yields++
		events <- event{task: t}
		<-t.resume
	}
	verifrt.Aborting = false
	verifrt.Block = func(key any) {
		t := running
		if t == nil {
			panic("sched: Block outside a scheduled task")
		}
		t.waits = key
		t.site = "blocked"
		events <- event{task: t}
		<-t.resume
	}
	verifrt.Wake = func(key any) {
		for _, t := range tasks {
			if t.waits == key {
				t.waits = nil
			}
		}
	}
	defer func() { verifrt.Sched, verifrt.Block, verifrt.Wake = nil, nil, nil }()
	for _, t := range tasks {
		t.resume = make(chan struct{})
		t.waits = nil
		t.done = false
		t.site = "start"
		t.Yields = 0
		t := t
		go func() {
			<-t.resume
			defer func() {
				r := recover()
				if _, ok := r.(verifrt.Aborted); ok {
					r = nil // released from a modelled lock because the execution ended in a deadlock
				}
				t.done = true
				events <- event{task: t, done: true, pan: r}
			}()
			t.Fn()
		}()
	}
	byID := map[int]*Task{}
	for _, t := range tasks {
		byID[t.ID] = t
	}
	last := -1
	quiet := false
	for {
		var enabled []int
		if last >= 0 && !byID[last].done && byID[last].waits == nil {
			enabled = append(enabled, last)
		}
		unfinished := 0
		for _, t := range tasks {
			if !t.done {
				unfinished++
			}
			if !t.done && t.waits == nil && t.ID != last {
				enabled = append(enabled, t.ID)
			}
		}
		if unfinished == 0 {
			return x
		}
		if len(enabled) == 0 {
			// every unfinished task waits for a lock: unwind them one at a time (the scheduler stays in charge, so that
			// their deferred calls do not run concurrently)
			x.Aborted = Deadlock
			verifrt.Aborting = true
			for _, t := range tasks {
				for !t.done {
					running = t
					t.resume <- struct{}{}
					ev := <-events
					running = nil
					_ = ev
				}
			}
			verifrt.Aborting = false
			return x
		}
		if !quiet && atState != nil && !atState(x, tasks) {
			// the caller has seen enough of this execution: finish it without further questions, still one task at a
			// time (the library may hold shared state that free-running goroutines would corrupt)
			x.Aborted = "stopped by the state callback"
			quiet = true
		}
		choice := 0
		if quiet {
			t := byID[enabled[0]]
			running = t
			t.resume <- struct{}{}
			ev := <-events
			running = nil
			if ev.pan != nil {
				panic(ev.pan)
			}
			last = t.ID
			continue
		}
		if len(x.Steps) < len(prefix) {
			choice = prefix[len(x.Steps)]
			if choice >= len(enabled) {
				panic(fmt.Sprintf("sched: replay divergence at step %d: choice %d of %d enabled", len(x.Steps), choice, len(enabled)))
			}
		}
		t := byID[enabled[choice]]
		x.Steps = append(x.Steps, Step{Enabled: enabled, Chosen: choice, Task: t.ID, Site: t.site, Running: last})
		running = t
		t.resume <- struct{}{}
		ev := <-events
		running = nil
		if ev.pan != nil {
			panic(ev.pan)
		}
		last = t.ID
	}
}

// Choices extracts the choice sequence of an execution.
func (x *Exec) Choices() []int {
	out := make([]int, len(x.Steps))
	for i, s := range x.Steps {
		out[i] = s.Chosen
	}
	return out
}

// PreemptionsBefore counts the preemptions among the first n steps: a step
// that switches away from a task that was still enabled.
func (x *Exec) PreemptionsBefore(n int) int {
	c := 0
	for i := 0; i < n && i < len(x.Steps); i++ {
		s := x.Steps[i]
		if s.Running >= 0 && len(s.Enabled) > 0 && s.Enabled[0] == s.Running && s.Chosen != 0 {
			c++
		}
	}
	return c
}

// Trace renders the task sequence compactly, e.g. "0x12 1x3 0x5".
func (x *Exec) Trace() string {
	out := ""
	run, n := -1, 0
	flush := func() {
		if n > 0 {
			if out != "" {
				out += " "
			}
			out += fmt.Sprintf("%dx%d", run, n)
		}
	}
	for _, s := range x.Steps {
		if s.Task != run {
			flush()
			run, n = s.Task, 0
		}
		n++
	}
	flush()
	return out
}
