package ref

import (
	"encoding/json"
	"strings"

	"github.com/woodsbury/jmespath/internal/verifmc/core"
)

// String renders a verdict.
func (r Res) String() string {
	switch {
	case r.U != "":
		return "undetermined(" + r.U + ")"
	case len(r.Err) > 0:
		return "error[" + strings.Join(r.Err, "|") + "]"
	case len(r.Alts) > 0:
		parts := make([]string, len(r.Alts))
		for i, a := range r.Alts {
			parts[i] = core.Canon(a)
		}
		return "one of " + strings.Join(parts, " / ")
	case r.Approx:
		return "within 1 unit of the 34th digit of " + core.Canon(r.Val)
	case r.JSONText:
		return "a JSON text of " + core.Canon(r.Val)
	}
	return "ok " + core.Canon(r.Val)
}

// Diff compares an observation of the implementation with the reference
// verdict. It returns "" when they agree (or the reference abstains), else the
// kind of difference.
func Diff(o core.Obs, r Res) string {
	if r.U != "" {
		return ""
	}
	switch o.Kind {
	case "panic", "budget":
		return o.Kind
	case "err":
		if o.FmtFail != "" {
			return "error-unformattable"
		}
		if o.BothSet {
			return "result-beside-error"
		}
		if len(r.Err) == 0 {
			return "unexpected-error:" + strings.Join(o.Cats, "+")
		}
		if len(o.Cats) != 1 {
			return "error-matches-" + itoa(len(o.Cats)) + "-categories"
		}
		for _, c := range r.Err {
			if c == o.Cats[0] {
				return ""
			}
		}
		return "wrong-category:" + o.Cats[0] + "-for-" + strings.Join(r.Err, "|")
	case "ok":
		if len(r.Err) > 0 {
			return "missing-error:" + strings.Join(r.Err, "|")
		}
		if !core.ValidUTF8(o.Raw) {
			return "invalid-utf8"
		}
		switch {
		case len(r.Alts) > 0:
			for _, a := range r.Alts {
				if core.EqualFast(o.Val, a) {
					return ""
				}
			}
		case r.Approx:
			got, ok := o.Val.(*core.Num)
			if ok && got.R != nil && WithinOneUlp(got.R, r.Val.(*core.Num).R) {
				return ""
			}
			if ok && got.R == nil {
				return "infinity-or-nan-value"
			}
		case r.JSONText:
			s, ok := o.Val.(string)
			if ok {
				d := json.NewDecoder(strings.NewReader(s))
				d.UseNumber()
				var v any
				if err := d.Decode(&v); err == nil && core.Equal(core.Norm(v), r.Val) {
					return ""
				}
			}
		default:
			if core.EqualFast(o.Val, r.Val) {
				return ""
			}
		}
		if core.HasForeign(o.Val) {
			return "non-json-result"
		}
		return "wrong-value"
	}
	return "unknown-observation"
}

func itoa(i int) string {
	return string(rune('0' + i))
}
