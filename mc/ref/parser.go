package ref

import (
	"encoding/json"
	"io"
	"math/big"
	"strings"
	"unicode/utf16"
	"unicode/utf8"

	"github.com/woodsbury/jmespath/internal/verifmc/core"
)

// Node kinds of the reference AST (no fused nodes).
type Kind int

const (
	KField Kind = iota
	KIndex
	KCurrent
	KRoot
	KLiteral
	KVar
	KSub   // Left . Right   (Right evaluated with current = value of Left)
	KPipe  // Left | Right
	KProj  // projection: Proj = "list" | "slice" | "object" | "filter" | "flatten"
	KSlice // bare slice of Left (used as the source of a "slice" projection)
	KMultiList
	KMultiHash
	KAnd
	KOr
	KNot
	KCmp
	KArith
	KNeg
	KPos
	KLet
	KCall
	KExpRef
)

// Node is one reference AST node.
type Node struct {
	Kind  Kind
	Name  string // field name, variable name, function name, operator
	Int   *big.Int
	Val   any // literal (normalised)
	Left  *Node
	Right *Node // nil = identity for projections
	Cond  *Node
	Proj  string
	Items []*Node  // multi-select items, call arguments, let binding expressions
	Keys  []string // multi-select hash keys, let binding names
	Start *big.Int // slice parts, nil = absent
	Stop  *big.Int
	Step  *big.Int
	U     string // non-empty: the meaning of this construct is not pinned (abstain when evaluated)
	Dot   bool   // multi-select written after a dot
}

// Style selects between the two readings of projection right-hand sides on
// which the specification's prose and the reference implementations differ.
type Style int

const (
	// Prose: a projection's right-hand side extends over every following selector.
	Prose Style = iota
	// RefImpl: jmespath.py/go-jmespath: after `x.*` the right-hand side is parsed
	// with the dot's own power, and a dot-multi-select ends the right-hand side.
	RefImpl
)

// ParseResult is the verdict of the reference parser on one string.
type ParseResult struct {
	AST    *Node
	Syntax bool     // the string is not in the grammar
	Static []string // static faults decided by the text alone (categories)
	U      string   // membership not pinned (abstain)
	Msg    string
}

type synErr struct{ msg string }

type parser struct {
	toks   []token
	pos    int
	style  Style
	static []string
	u      string
}

var bp = map[tokKind]int{
	tPipe: 1, tOr: 2, tAnd: 3,
	tEQ: 5, tNE: 5, tLT: 5, tLE: 5, tGT: 5, tGE: 5,
	tPlus: 6, tMinus: 6,
	tStar: 7, tTimes: 7, tDivide: 7, tIntDiv: 7, tMod: 7,
	tFlatten: 9,
	tFilter:  21, tDot: 40, tLbracket: 55,
}

const (
	bpStar = 20
	bpNot  = 45
)

// Parse parses src under the given style.
func Parse(src string, style Style) (res ParseResult) {
	toks, lerr := lex(src)
	if lerr != nil {
		// the string is outside the grammar whatever the parser thinks; parse the tokens before the failure only to
		// learn which static faults (unknown function, arity, argument kind) a lazy scanner meets before the bad token
		toks = append(toks, token{tLexErr, "<scan error>", lerr.pos, lerr.pos, false}, token{tEOF, "", len(src), len(src), false})
		res = ParseResult{Syntax: true, Msg: lerr.msg}
		func() {
			p := &parser{toks: toks, style: style}
			defer func() {
				recover()
				res.Static = p.static
			}()
			p.expression(0)
		}()
		return res
	}
	p := &parser{toks: toks, style: style}
	defer func() {
		if r := recover(); r != nil {
			if se, ok := r.(synErr); ok {
				res = ParseResult{Syntax: true, Static: p.static, U: p.u, Msg: se.msg}
				return
			}
			panic(r)
		}
	}()
	n := p.expression(0)
	if p.cur().kind != tEOF {
		p.fail("unexpected token " + p.cur().text)
	}
	return ParseResult{AST: n, Static: p.static, U: p.u}
}

func (p *parser) cur() token { return p.toks[p.pos] }
func (p *parser) peek(k int) token {
	if p.pos+k < len(p.toks) {
		return p.toks[p.pos+k]
	}
	return p.toks[len(p.toks)-1]
}
func (p *parser) advance() token {
	t := p.toks[p.pos]
	if p.pos < len(p.toks)-1 {
		p.pos++
	}
	return t
}
func (p *parser) fail(msg string) { panic(synErr{msg}) }
func (p *parser) expect(k tokKind, what string) token {
	if p.cur().kind != k {
		p.fail("expected " + what + " at " + p.cur().text)
	}
	return p.advance()
}
func (p *parser) fault(cat string) {
	for _, c := range p.static {
		if c == cat {
			return
		}
	}
	p.static = append(p.static, cat)
}
func (p *parser) unsure(why string) {
	if p.u == "" {
		p.u = why
	}
}

func (p *parser) lbp(t token) int { return bp[t.kind] }

func (p *parser) expression(rbp int) *Node {
	left := p.nud()
	for rbp < p.lbp(p.cur()) {
		left = p.led(left)
	}
	return left
}

func (p *parser) nud() *Node {
	t := p.advance()
	switch t.kind {
	case tIdent:
		if p.cur().kind == tLparen && !p.cur().ws {
			return p.call(t.text)
		}
		if p.cur().kind == tLparen {
			// "foo (" : whitespace between tokens is not significant
			if t.text == "let" || t.text == "in" {
				p.unsure("let/in used as identifier")
			}
			return p.call(t.text)
		}
		if t.text == "let" && p.cur().kind == tVariable {
			return p.let()
		}
		if t.text == "let" || t.text == "in" {
			p.unsure("let/in used as identifier")
		}
		return &Node{Kind: KField, Name: t.text}
	case tQuoted:
		s, ok, unsure := decodeQuoted(t.text)
		if !ok {
			p.fail("invalid quoted identifier")
		}
		if unsure != "" {
			p.unsure(unsure)
		}
		return &Node{Kind: KField, Name: s}
	case tRaw:
		s, unsure := decodeRaw(t.text)
		if unsure != "" {
			p.unsure(unsure)
		}
		return &Node{Kind: KLiteral, Val: s}
	case tLiteral:
		v, ok, unsure := decodeLiteral(t.text)
		if !ok {
			p.fail("invalid JSON literal")
		}
		if unsure != "" {
			p.unsure(unsure)
		}
		return &Node{Kind: KLiteral, Val: v}
	case tCurrent:
		return &Node{Kind: KCurrent}
	case tRoot:
		return &Node{Kind: KRoot}
	case tVariable:
		return &Node{Kind: KVar, Name: t.text}
	case tLparen:
		n := p.expression(0)
		p.expect(tRparen, ")")
		return n
	case tNot:
		return &Node{Kind: KNot, Left: p.expression(bpNot)}
	case tPlus, tMinus:
		// unary sign binds tighter than every binary operator (property C10): the
		// operand takes selectors and brackets with it, but no arithmetic operator
		operand := p.expression(bp[tStar])
		n := &Node{Kind: KPos, Left: operand}
		if t.kind == tMinus {
			n.Kind = KNeg
		}
		return n
	case tStar:
		return &Node{Kind: KProj, Proj: "object", Left: &Node{Kind: KCurrent}, Right: p.projRHS(bpStar)}
	case tFlatten:
		return &Node{Kind: KProj, Proj: "flatten", Left: &Node{Kind: KCurrent}, Right: p.projRHS(bp[tFlatten])}
	case tFilter:
		return p.filter(&Node{Kind: KCurrent})
	case tLbracket:
		switch {
		case p.cur().kind == tNumber || p.cur().kind == tColon:
			return p.indexOrSlice(&Node{Kind: KCurrent})
		case p.cur().kind == tStar && p.peek(1).kind == tRbracket:
			p.advance()
			p.advance()
			return &Node{Kind: KProj, Proj: "list", Left: &Node{Kind: KCurrent}, Right: p.projRHS(bpStar)}
		}
		return p.multiList()
	case tLbrace:
		return p.multiHash()
	case tEOF:
		p.fail("unexpected end of expression")
	}
	p.fail("unexpected token " + t.text)
	return nil
}

func (p *parser) led(left *Node) *Node {
	t := p.advance()
	switch t.kind {
	case tDot:
		if p.cur().kind == tStar {
			p.advance()
			power := bpStar
			if p.style == RefImpl {
				power = bp[tDot]
			}
			return &Node{Kind: KProj, Proj: "object", Left: left, Right: p.projRHS(power)}
		}
		return &Node{Kind: KSub, Left: left, Right: p.dotRHS(bp[tDot])}
	case tLbracket:
		switch {
		case p.cur().kind == tNumber || p.cur().kind == tColon:
			return p.indexOrSlice(left)
		case p.cur().kind == tStar && p.peek(1).kind == tRbracket:
			p.advance()
			p.advance()
			return &Node{Kind: KProj, Proj: "list", Left: left, Right: p.projRHS(bpStar)}
		}
		p.fail("expected number, ':' or '*' after '['")
	case tFlatten:
		return &Node{Kind: KProj, Proj: "flatten", Left: left, Right: p.projRHS(bp[tFlatten])}
	case tFilter:
		return p.filter(left)
	case tPipe:
		return &Node{Kind: KPipe, Left: left, Right: p.expression(bp[tPipe])}
	case tOr:
		return &Node{Kind: KOr, Left: left, Right: p.expression(bp[tOr])}
	case tAnd:
		return &Node{Kind: KAnd, Left: left, Right: p.expression(bp[tAnd])}
	case tEQ, tNE, tLT, tLE, tGT, tGE:
		return &Node{Kind: KCmp, Name: t.text, Left: left, Right: p.expression(bp[t.kind])}
	case tPlus, tMinus, tStar, tTimes, tDivide, tIntDiv, tMod:
		op := t.text
		switch t.kind {
		case tMinus:
			op = "-"
		case tStar, tTimes:
			op = "*"
		case tDivide:
			op = "/"
		}
		return &Node{Kind: KArith, Name: op, Left: left, Right: p.expression(bp[t.kind])}
	}
	p.fail("unexpected token " + t.text)
	return nil
}

// dotRHS parses what may follow a dot (the dot has been consumed).
func (p *parser) dotRHS(power int) *Node {
	switch p.cur().kind {
	case tIdent, tQuoted:
		if t := p.cur(); t.kind == tIdent && t.text == "let" && p.peek(1).kind == tVariable {
			// a let expression is not one of the things that may follow a dot; read as the field "let" the variable after
			// it is an error too
			p.fail("let expression after '.'")
		}
		return p.expression(power)
	case tStar:
		return p.expression(power)
	case tLbracket:
		p.advance()
		n := p.multiList()
		n.Dot = true
		return n
	case tLbrace:
		p.advance()
		n := p.multiHash()
		n.Dot = true
		return n
	}
	p.fail("unexpected token after '.': " + p.cur().text)
	return nil
}

// projRHS parses the right-hand side of a projection; nil = identity.
func (p *parser) projRHS(power int) *Node {
	t := p.cur()
	switch {
	case t.kind == tLbracket:
		// only bracket specifiers continue a projection (not multi-select lists)
		n := p.peek(1)
		if !(n.kind == tNumber || n.kind == tColon || n.kind == tStar && p.peek(2).kind == tRbracket) {
			p.fail("multi-select list cannot follow a projection without a dot")
		}
		return p.expression(power)
	case t.kind == tFilter:
		return p.expression(power)
	case t.kind == tDot:
		p.advance()
		if p.cur().kind == tLbracket || p.cur().kind == tLbrace {
			first := p.dotRHS(power)
			if p.style == RefImpl {
				return first
			}
			// prose rule: keep extending over the following selectors
			left := first
			for power < p.lbp(p.cur()) {
				left = p.led(left)
			}
			return left
		}
		return p.dotRHS(power)
	case p.lbp(t) < 10:
		return nil
	}
	p.fail("unexpected token in projection: " + t.text)
	return nil
}

func (p *parser) filter(left *Node) *Node {
	cond := p.expression(0)
	p.expect(tRbracket, "]")
	return &Node{Kind: KProj, Proj: "filter", Left: left, Cond: cond, Right: p.projRHS(bp[tFilter])}
}

func (p *parser) number() *big.Int {
	t := p.expect(tNumber, "number")
	n, ok := new(big.Int).SetString(t.text, 10)
	if !ok {
		p.fail("bad number")
	}
	if n.BitLen() > 63 {
		p.unsure("integer literal beyond 64 bits")
	}
	return n
}

// indexOrSlice parses after '[' when the next token is a number or ':'.
func (p *parser) indexOrSlice(left *Node) *Node {
	var parts [3]*big.Int
	idx := 0
	colons := 0
	for {
		switch p.cur().kind {
		case tNumber:
			if parts[idx] != nil {
				p.fail("two numbers in a row")
			}
			parts[idx] = p.number()
			continue
		case tColon:
			p.advance()
			colons++
			idx++
			if idx > 2 {
				p.fail("too many colons in slice")
			}
			continue
		case tRbracket:
			p.advance()
		default:
			p.fail("unexpected token in bracket specifier: " + p.cur().text)
		}
		break
	}
	if colons == 0 {
		return &Node{Kind: KIndex, Left: left, Int: parts[0]}
	}
	if parts[2] != nil && parts[2].Sign() == 0 {
		p.fault("invalid-value")
	}
	sl := &Node{Kind: KSlice, Left: left, Start: parts[0], Stop: parts[1], Step: parts[2]}
	return &Node{Kind: KProj, Proj: "slice", Left: sl, Right: p.projRHS(bpStar)}
}

func (p *parser) multiList() *Node {
	n := &Node{Kind: KMultiList}
	for {
		n.Items = append(n.Items, p.expression(0))
		if p.cur().kind == tComma {
			p.advance()
			continue
		}
		p.expect(tRbracket, "]")
		return n
	}
}

func (p *parser) multiHash() *Node {
	n := &Node{Kind: KMultiHash}
	for {
		var key string
		t := p.advance()
		switch t.kind {
		case tIdent:
			key = t.text
			if key == "let" || key == "in" {
				p.unsure("let/in used as identifier")
			}
		case tQuoted:
			s, ok, unsure := decodeQuoted(t.text)
			if !ok {
				p.fail("invalid quoted identifier")
			}
			if unsure != "" {
				p.unsure(unsure)
			}
			key = s
		default:
			p.fail("expected identifier as multi-select hash key")
		}
		p.expect(tColon, ":")
		for _, k := range n.Keys {
			if k == key {
				// the specification does not say what a repeated key means (which member wins, whether the
				// overridden expression is still evaluated)
				n.U = "duplicate key in a multi-select hash"
			}
		}
		n.Keys = append(n.Keys, key)
		n.Items = append(n.Items, p.expression(0))
		if p.cur().kind == tComma {
			p.advance()
			continue
		}
		p.expect(tRbrace, "}")
		return n
	}
}

func (p *parser) let() *Node {
	n := &Node{Kind: KLet}
	for {
		v := p.expect(tVariable, "variable")
		p.expect(tAssign, "=")
		n.Keys = append(n.Keys, v.text)
		n.Items = append(n.Items, p.expression(0))
		if p.cur().kind == tComma {
			p.advance()
			continue
		}
		break
	}
	if !(p.cur().kind == tIdent && p.cur().text == "in") {
		p.fail("expected 'in'")
	}
	p.advance()
	n.Left = p.expression(0)
	for i := range n.Keys {
		for j := 0; j < i; j++ {
			if n.Keys[i] == n.Keys[j] {
				n.U = "the same variable bound twice in one let"
			}
		}
	}
	return n
}

// call parses a function call; the name has been consumed, '(' is current.
func (p *parser) call(name string) *Node {
	p.advance() // (
	sig, known := Signatures[name]
	if !known {
		p.fault("unknown-function")
	}
	n := &Node{Kind: KCall, Name: name}
	if p.cur().kind == tRparen {
		p.advance()
		if known && sig.Min > 0 {
			p.fault("invalid-arity")
		}
		return n
	}
	for {
		var arg *Node
		if known && sig.ExprAt(len(n.Items)) && (sig.Max < 0 || len(n.Items) < sig.Max) && p.cur().kind != tExpref {
			// a one-token look at the argument already shows that it is not an expression reference: a parser may say so
			// before it finds out that the argument is malformed as well ("map(" + end of input)
			p.fault("invalid-type")
		}
		if p.cur().kind == tExpref {
			p.advance()
			arg = &Node{Kind: KExpRef, Left: p.expression(0)}
		} else {
			arg = p.expression(0)
		}
		i := len(n.Items)
		n.Items = append(n.Items, arg)
		if known {
			if sig.Max >= 0 && i >= sig.Max {
				p.fault("invalid-arity")
			} else {
				want := sig.ExprAt(i)
				if want && arg.Kind != KExpRef {
					p.fault("invalid-type")
				}
				if !want && arg.Kind == KExpRef {
					// the specification names invalid-type; rejecting the text as a syntax
					// error (as the implementation does) is accepted as well
					p.fault("invalid-type")
					p.fault("syntax")
				}
			}
		}
		if p.cur().kind == tComma {
			p.advance()
			if known && sig.Max >= 0 && len(n.Items) >= sig.Max {
				p.fault("invalid-arity")
			}
			continue
		}
		p.expect(tRparen, ")")
		break
	}
	if known && len(n.Items) < sig.Min {
		p.fault("invalid-arity")
	}
	return n
}

// ---------------------------------------------------------------------------
// literal decoding

// decodeQuoted decodes a quoted identifier (a JSON string).
func decodeQuoted(tok string) (s string, ok bool, unsure string) {
	body := tok[1 : len(tok)-1]
	// the grammar (a JSON string) excludes raw control characters: decodeJSONString rejects them
	return decodeJSONString(body)
}

// decodeJSONString decodes the inside of a JSON string strictly.
func decodeJSONString(body string) (string, bool, string) {
	var b strings.Builder
	unsure := ""
	for i := 0; i < len(body); {
		c := body[i]
		switch {
		case c == '"':
			return "", false, ""
		case c < 0x20:
			return "", false, ""
		case c != '\\':
			r, sz := utf8.DecodeRuneInString(body[i:])
			b.WriteRune(r)
			i += sz
		default:
			if i+1 >= len(body) {
				return "", false, ""
			}
			e := body[i+1]
			i += 2
			switch e {
			case '"':
				b.WriteByte('"')
			case '\\':
				b.WriteByte('\\')
			case '/':
				b.WriteByte('/')
			case 'b':
				b.WriteByte('\b')
			case 'f':
				b.WriteByte('\f')
			case 'n':
				b.WriteByte('\n')
			case 'r':
				b.WriteByte('\r')
			case 't':
				b.WriteByte('\t')
			case 'u':
				r, ok := hex4(body, i)
				if !ok {
					return "", false, ""
				}
				i += 4
				if utf16.IsSurrogate(r) {
					if i+6 <= len(body) && body[i] == '\\' && body[i+1] == 'u' {
						if r2, ok := hex4(body, i+2); ok {
							if dec := utf16.DecodeRune(r, r2); dec != utf8.RuneError {
								b.WriteRune(dec)
								i += 6
								continue
							}
						}
					}
					unsure = "lone surrogate escape"
					b.WriteRune(utf8.RuneError)
					continue
				}
				b.WriteRune(r)
			default:
				return "", false, ""
			}
		}
	}
	return b.String(), true, unsure
}

func hex4(s string, i int) (rune, bool) {
	if i+4 > len(s) {
		return 0, false
	}
	var r rune
	for _, c := range []byte(s[i : i+4]) {
		switch {
		case c >= '0' && c <= '9':
			r = r*16 + rune(c-'0')
		case c >= 'a' && c <= 'f':
			r = r*16 + rune(c-'a'+10)
		case c >= 'A' && c <= 'F':
			r = r*16 + rune(c-'A'+10)
		default:
			return 0, false
		}
	}
	return r, true
}

// decodeRaw decodes a raw string literal: \' and \\ are the only escapes.
func decodeRaw(tok string) (string, string) {
	body := tok[1 : len(tok)-1]
	unsure := ""
	var b strings.Builder
	for i := 0; i < len(body); i++ {
		c := body[i]
		if c == '\\' && i+1 < len(body) && (body[i+1] == '\'' || body[i+1] == '\\') {
			b.WriteByte(body[i+1])
			i++
			continue
		}
		b.WriteByte(c)
	}
	return b.String(), unsure
}

// decodeLiteral decodes a backtick literal: the JSON text between the
// backticks, with \` standing for a backtick.
func decodeLiteral(tok string) (any, bool, string) {
	body := strings.ReplaceAll(tok[1:len(tok)-1], "\\`", "`")
	unsure := ""
	if strings.Contains(body, "\\u") && hasLoneSurrogate(body) {
		unsure = "lone surrogate escape"
	}
	d := json.NewDecoder(strings.NewReader(body))
	d.UseNumber()
	var v any
	if err := d.Decode(&v); err != nil {
		return nil, false, ""
	}
	if _, err := d.Token(); err != io.EOF {
		return nil, false, ""
	}
	if hasDupKeys(body) {
		unsure = "duplicate member names in a JSON literal"
	}
	nv := core.Norm(v)
	if core.HasForeign(nv) {
		unsure = "number outside the modelled range in a JSON literal"
	}
	return nv, true, unsure
}

func hasLoneSurrogate(body string) bool {
	for i := 0; i+6 <= len(body); i++ {
		if body[i] == '\\' && body[i+1] == '\\' {
			i++
			continue
		}
		if body[i] == '\\' && body[i+1] == 'u' {
			r, ok := hex4(body, i+2)
			if !ok {
				continue
			}
			if utf16.IsSurrogate(r) {
				if i+12 <= len(body) && body[i+6] == '\\' && body[i+7] == 'u' {
					if r2, ok := hex4(body, i+8); ok && utf16.DecodeRune(r, r2) != utf8.RuneError {
						i += 11
						continue
					}
				}
				return true
			}
			i += 5
		}
	}
	return false
}

func hasDupKeys(body string) bool {
	d := json.NewDecoder(strings.NewReader(body))
	d.UseNumber()
	type frame struct {
		obj  bool
		keys map[string]bool
		want bool // next string token is a key
	}
	var st []frame
	for {
		t, err := d.Token()
		if err != nil {
			return false
		}
		switch x := t.(type) {
		case json.Delim:
			switch x {
			case '{':
				st = append(st, frame{obj: true, keys: map[string]bool{}, want: true})
				continue
			case '[':
				st = append(st, frame{})
				continue
			default:
				st = st[:len(st)-1]
			}
		case string:
			if n := len(st); n > 0 && st[n-1].obj && st[n-1].want {
				if st[n-1].keys[x] {
					return true
				}
				st[n-1].keys[x] = true
				st[n-1].want = false
				continue
			}
		}
		if n := len(st); n > 0 && st[n-1].obj {
			st[n-1].want = true
		}
	}
}

// String renders the AST (for diagnostics and for telling two parses apart).
func (n *Node) String() string {
	if n == nil {
		return "@id"
	}
	var b strings.Builder
	n.write(&b)
	return b.String()
}

func (n *Node) write(b *strings.Builder) {
	if n == nil {
		b.WriteString("@id")
		return
	}
	w := func(s string) { b.WriteString(s) }
	switch n.Kind {
	case KField:
		w("field(" + n.Name + ")")
	case KIndex:
		w("index(")
		n.Left.write(b)
		w("," + n.Int.String() + ")")
	case KCurrent:
		w("@")
	case KRoot:
		w("$")
	case KLiteral:
		w("lit(" + core.Canon(n.Val) + ")")
	case KVar:
		w(n.Name)
	case KSub, KPipe, KAnd, KOr, KCmp, KArith:
		name := map[Kind]string{KSub: "sub", KPipe: "pipe", KAnd: "and", KOr: "or", KCmp: "cmp" + n.Name, KArith: "arith" + n.Name}[n.Kind]
		w(name + "(")
		n.Left.write(b)
		w(",")
		n.Right.write(b)
		w(")")
	case KNot, KNeg, KPos, KExpRef:
		w(map[Kind]string{KNot: "not", KNeg: "neg", KPos: "pos", KExpRef: "expref"}[n.Kind] + "(")
		n.Left.write(b)
		w(")")
	case KProj:
		w("proj-" + n.Proj + "(")
		n.Left.write(b)
		if n.Cond != nil {
			w(" ? ")
			n.Cond.write(b)
		}
		w(" => ")
		n.Right.write(b)
		w(")")
	case KSlice:
		w("slice(")
		n.Left.write(b)
		for _, x := range []*big.Int{n.Start, n.Stop, n.Step} {
			if x == nil {
				w(",_")
			} else {
				w("," + x.String())
			}
		}
		w(")")
	case KMultiList:
		w("list(")
		for i, it := range n.Items {
			if i > 0 {
				w(",")
			}
			it.write(b)
		}
		w(")")
	case KMultiHash:
		w("hash(")
		for i, it := range n.Items {
			if i > 0 {
				w(",")
			}
			w(n.Keys[i] + ":")
			it.write(b)
		}
		w(")")
	case KLet:
		w("let(")
		for i, it := range n.Items {
			w(n.Keys[i] + "=")
			it.write(b)
			w(";")
		}
		n.Left.write(b)
		w(")")
	case KCall:
		w(n.Name + "(")
		for i, it := range n.Items {
			if i > 0 {
				w(",")
			}
			it.write(b)
		}
		w(")")
	}
}

// TokenShape renders the token kinds of src (for clustering); "unlexable" when
// the string cannot be scanned.
func TokenShape(src string, max int) string {
	toks, err := lex(src)
	if err != nil {
		return "unlexable"
	}
	var parts []string
	for i, t := range toks {
		if t.kind == tEOF {
			break
		}
		if i >= max {
			parts = append(parts, "...")
			break
		}
		parts = append(parts, kindName(t))
	}
	return strings.Join(parts, " ")
}

func kindName(t token) string {
	switch t.kind {
	case tIdent:
		if t.text == "let" || t.text == "in" {
			return t.text
		}
		return "id"
	case tQuoted:
		return "quoted"
	case tRaw:
		return "raw"
	case tLiteral:
		return "lit"
	case tNumber:
		return "num"
	case tVariable:
		return "var"
	}
	return t.text
}

// Tok is an exported view of one token.
type Tok struct {
	Text     string
	Pos, End int
}

// Tokens scans src; ok=false when it cannot be scanned.
func Tokens(src string) ([]Tok, bool) {
	toks, err := lex(src)
	if err != nil {
		return nil, false
	}
	var out []Tok
	for _, t := range toks {
		if t.kind != tEOF {
			out = append(out, Tok{t.text, t.pos, t.end})
		}
	}
	return out, true
}

// TailShape renders the kinds of the last n tokens of src.
func TailShape(src string, n int) string {
	toks, err := lex(src)
	if err != nil {
		return "unlexable"
	}
	toks = toks[:len(toks)-1]
	if len(toks) > n {
		toks = toks[len(toks)-n:]
	}
	var parts []string
	for _, t := range toks {
		parts = append(parts, kindName(t))
	}
	return strings.Join(parts, " ")
}
