package ref

import (
	"math/big"
	"sort"
	"strings"

	"github.com/woodsbury/jmespath/internal/verifmc/core"
)

// Res is a three-valued verdict.
type Res struct {
	Val  any      // the value (normalised model) when Err, Alts and U are empty
	Err  []string // non-empty: the call must fail with one of these categories
	Alts []any    // non-empty: any of these values is acceptable
	U    string   // non-empty: the specification does not pin the outcome
	// Approx: Val is the mathematically exact number; any result within one unit
	// of its 34th significant digit is acceptable.
	Approx bool
	// JSONText: the result must be a string holding a JSON text that decodes to Val.
	JSONText bool
}

func val(v any) Res           { return Res{Val: v} }
func fail(cats ...string) Res { return Res{Err: cats} }

func addCats(cats []string, more []string) []string {
	for _, c := range more {
		seen := false
		for _, d := range cats {
			seen = seen || c == d
		}
		if !seen {
			cats = append(cats, c)
		}
	}
	return cats
}
func unsure(why string) Res { return Res{U: why} }
func (r Res) bad() bool {
	return len(r.Err) > 0 || r.U != "" || len(r.Alts) > 0 || r.Approx || r.JSONText
}
func (r Res) Determinate() bool { return r.U == "" }
func (r Res) IsError() bool     { return len(r.Err) > 0 }

// collapse turns an inner alternative set into an abstention (alternatives are
// only judged at the top level).
func (r Res) inner() Res {
	if len(r.Alts) > 0 {
		return unsure("one of several acceptable values used as an intermediate result")
	}
	if r.Approx {
		return unsure("inexact arithmetic result used as an intermediate result")
	}
	if r.JSONText {
		return unsure("to_string of a value whose JSON spelling is not pinned, used as an intermediate result")
	}
	return r
}

// closure is the value of an expression reference.
type closure struct {
	node *Node
	env  *env
}

type env struct {
	parent *env
	vars   map[string]any
}

func (e *env) get(name string) (any, bool) {
	for s := e; s != nil; s = s.parent {
		if v, ok := s.vars[name]; ok {
			return v, true
		}
	}
	return nil, false
}

type interp struct {
	root  any
	steps int
}

// Eval evaluates src on doc (a normalised value) under both readings of the
// projection rule; when they disagree the result is undetermined.
func Eval(src string, doc any) Res {
	pa := Parse(src, Prose)
	pb := Parse(src, RefImpl)
	same := pa.Syntax == pb.Syntax && pa.AST != nil && pb.AST != nil && pa.AST.String() == pb.AST.String()
	return EvalBoth(pa, pb, same, doc)
}

// ProseOnly makes the reference follow the prose rule of property C01 alone ("a projection's right-hand side extends
// over following selectors until a pipe, a lower-precedence operator or a closing bracket") instead of abstaining where
// the reference implementations read a right-hand side differently. It is the default: the property states the rule.
var ProseOnly = true

// EvalBoth is Eval on prepared parses (same: the two parses are identical).
func EvalBoth(pa, pb ParseResult, same bool, doc any) Res {
	r := EvalParsed(pa, doc)
	if r.U != "" || same || ProseOnly {
		return r
	}
	if pa.Syntax != pb.Syntax {
		return unsure("prose rule vs reference implementations: grammar membership differs")
	}
	if pa.Syntax && pb.Syntax {
		return r
	}
	r2 := EvalParsed(pb, doc)
	if r2.U != "" {
		return r2
	}
	if !sameRes(r, r2) {
		return unsure("prose rule vs reference implementations: the two readings of the projection right-hand side give different results")
	}
	return r
}

func sameRes(a, b Res) bool {
	if a.IsError() != b.IsError() {
		return false
	}
	if a.IsError() {
		return strings.Join(a.Err, ",") == strings.Join(b.Err, ",")
	}
	if len(a.Alts) > 0 || len(b.Alts) > 0 || a.Approx != b.Approx || a.JSONText != b.JSONText {
		return false
	}
	return core.Equal(a.Val, b.Val)
}

// EvalParsed evaluates an already parsed expression.
func EvalParsed(p ParseResult, doc any) Res {
	if p.U != "" {
		return unsure(p.U)
	}
	var cats []string
	if p.Syntax {
		cats = append(cats, "syntax")
	}
	cats = append(cats, p.Static...)
	if len(cats) > 0 {
		return fail(cats...)
	}
	in := &interp{root: doc}
	return in.eval(p.AST, doc, nil)
}

func isNum(v any) bool { _, ok := v.(*core.Num); return ok }

func truthy(v any) bool {
	switch x := v.(type) {
	case nil:
		return false
	case bool:
		return x
	case string:
		return x != ""
	case []any:
		return len(x) > 0
	case map[string]any:
		return len(x) > 0
	}
	return true
}

// numOK reports whether a number is within the modelled domain.
// A number whose magnitude lies outside the decimal128 exponent range (1e7000, 1e-7000) is outside it: the library
// cannot hold it as a number, and what it does instead (a type error, null) is not pinned by any property.
func numOK(n *core.Num) bool {
	if n.Bad != "" || n.Special != "" || n.R == nil {
		return false
	}
	if n.R.Sign() != 0 {
		if m := Magnitude(n.R); m > 6144 || m < -6176 {
			return false
		}
	}
	return true
}

// deepEqual is JSON equality; ok=false when a number outside the model is met.
func deepEqual(a, b any) (eq bool, ok bool) {
	switch x := a.(type) {
	case *core.Num:
		y, isN := b.(*core.Num)
		if !isN {
			return false, numOK(x)
		}
		if !numOK(x) || !numOK(y) {
			return false, false
		}
		return x.R.Cmp(y.R) == 0, true
	case []any:
		y, isA := b.([]any)
		if !isA || len(x) != len(y) {
			if n, isN := b.(*core.Num); isN && !numOK(n) {
				return false, false
			}
			return false, true
		}
		for i := range x {
			e, ok := deepEqual(x[i], y[i])
			if !ok {
				return false, false
			}
			if !e {
				return false, true
			}
		}
		return true, true
	case map[string]any:
		y, isM := b.(map[string]any)
		if !isM || len(x) != len(y) {
			return false, true
		}
		for k, xv := range x {
			yv, has := y[k]
			if !has {
				return false, true
			}
			e, ok := deepEqual(xv, yv)
			if !ok {
				return false, false
			}
			if !e {
				return false, true
			}
		}
		return true, true
	case core.Foreign:
		return false, false
	}
	if n, isN := b.(*core.Num); isN && !numOK(n) {
		return false, false
	}
	if _, isF := b.(core.Foreign); isF {
		return false, false
	}
	switch x := a.(type) {
	case nil:
		return b == nil, true
	case bool:
		y, isB := b.(bool)
		return isB && x == y, true
	case string:
		y, isS := b.(string)
		return isS && x == y, true
	}
	return false, false
}

func (in *interp) eval(n *Node, cur any, e *env) Res {
	in.steps++
	if n == nil {
		return val(cur)
	}
	if n.U != "" {
		return unsure(n.U)
	}
	switch n.Kind {
	case KCurrent:
		return val(cur)
	case KRoot:
		return val(in.root)
	case KLiteral:
		return val(n.Val)
	case KField:
		if m, ok := cur.(map[string]any); ok {
			return val(m[n.Name])
		}
		if _, ok := cur.(core.Foreign); ok {
			return unsure("field of a non-JSON value")
		}
		return val(nil)
	case KVar:
		v, ok := e.get(n.Name)
		if !ok {
			return fail("undefined-variable")
		}
		return val(v)
	case KIndex:
		l := in.eval(n.Left, cur, e).inner()
		if l.bad() {
			return l
		}
		a, ok := l.Val.([]any)
		if !ok {
			if _, f := l.Val.(core.Foreign); f {
				return unsure("index of a non-JSON value")
			}
			return val(nil)
		}
		if !n.Int.IsInt64() {
			return val(nil)
		}
		i := n.Int.Int64()
		if i < 0 {
			i += int64(len(a))
		}
		if i < 0 || i >= int64(len(a)) {
			return val(nil)
		}
		return val(a[i])
	case KSlice:
		l := in.eval(n.Left, cur, e).inner()
		if l.bad() {
			return l
		}
		return sliceValue(l.Val, n.Start, n.Stop, n.Step)
	case KSub, KPipe:
		l := in.eval(n.Left, cur, e).inner()
		if l.bad() {
			return l
		}
		if n.Kind == KSub && l.Val == nil && n.Right != nil && (n.Right.Kind == KMultiList || n.Right.Kind == KMultiHash) {
			return val(nil) // pinned by the corpus: missing.{foo: bar} is null
		}
		return in.eval(n.Right, l.Val, e)
	case KProj:
		return in.project(n, cur, e)
	case KMultiList:
		if cur == nil {
			if r := multiOnNull(n); r != nil {
				return *r
			}
		}
		out := make([]any, 0, len(n.Items))
		for _, it := range n.Items {
			r := in.eval(it, cur, e).inner()
			if r.bad() {
				return r
			}
			out = append(out, r.Val)
		}
		return val(out)
	case KMultiHash:
		if cur == nil {
			if r := multiOnNull(n); r != nil {
				return *r
			}
		}
		// the members may be evaluated in any order: when several fail, any of their categories may be reported
		out := make(map[string]any, len(n.Items))
		var cats []string
		for i, it := range n.Items {
			r := in.eval(it, cur, e).inner()
			if r.U != "" {
				return r
			}
			if r.IsError() {
				cats = addCats(cats, r.Err)
				continue
			}
			out[n.Keys[i]] = r.Val
		}
		if len(cats) > 0 {
			return fail(cats...)
		}
		return val(out)
	case KAnd:
		l := in.eval(n.Left, cur, e).inner()
		if l.bad() {
			return l
		}
		if !truthy(l.Val) {
			return l
		}
		return in.eval(n.Right, cur, e)
	case KOr:
		l := in.eval(n.Left, cur, e).inner()
		if l.bad() {
			return l
		}
		if truthy(l.Val) {
			return l
		}
		return in.eval(n.Right, cur, e)
	case KNot:
		l := in.eval(n.Left, cur, e).inner()
		if l.bad() {
			return l
		}
		return val(!truthy(l.Val))
	case KCmp:
		l := in.eval(n.Left, cur, e).inner()
		if l.bad() {
			return l
		}
		r := in.eval(n.Right, cur, e).inner()
		if r.bad() {
			return r
		}
		return compare(n.Name, l.Val, r.Val)
	case KArith:
		l := in.eval(n.Left, cur, e).inner()
		if l.bad() {
			return l
		}
		r := in.eval(n.Right, cur, e).inner()
		if r.bad() {
			return r
		}
		return Arith(n.Name, l.Val, r.Val)
	case KNeg, KPos:
		l := in.eval(n.Left, cur, e).inner()
		if l.bad() {
			return l
		}
		x, ok := l.Val.(*core.Num)
		if !ok {
			return unsure("unary sign applied to a non-number (null or invalid-type)")
		}
		if !numOK(x) {
			return unsure("number outside the modelled range")
		}
		if n.Kind == KPos {
			return val(x)
		}
		return val(&core.Num{R: new(big.Rat).Neg(x.R)})
	case KLet:
		// the bindings of one let may be evaluated in any order: when several fail, any of their categories may be reported
		vars := make(map[string]any, len(n.Items))
		var cats []string
		for i, it := range n.Items {
			r := in.eval(it, cur, e).inner()
			if r.U != "" {
				return r
			}
			if r.IsError() {
				cats = addCats(cats, r.Err)
				continue
			}
			vars[n.Keys[i]] = r.Val
		}
		if len(cats) > 0 {
			return fail(cats...)
		}
		return in.eval(n.Left, cur, &env{parent: e, vars: vars})
	case KCall:
		return in.call(n, cur, e)
	case KExpRef:
		return val(closure{n.Left, e})
	}
	return unsure("unknown node")
}

// multiOnNull decides a multi-select evaluated against a null current node.
// Pinned by the corpus: after a dot it is null (handled in KSub); a
// single-element multi-select reached through a pipe evaluates normally
// (`null`|[@] is [null]). Everything else is left open: a multi-select of two
// or more elements, and a dot-multi-select that starts a projection's
// right-hand side.
func multiOnNull(n *Node) *Res {
	if n.Dot {
		r := unsure("dot-multi-select applied to a null element of a projection")
		return &r
	}
	if len(n.Items) == 1 {
		return nil
	}
	r := unsure("multi-select of two or more elements on a null current node")
	return &r
}

func (in *interp) project(n *Node, cur any, e *env) Res {
	l := in.eval(n.Left, cur, e).inner()
	if l.bad() {
		return l
	}
	if _, f := l.Val.(core.Foreign); f {
		return unsure("projection of a non-JSON value")
	}
	var source []any
	switch n.Proj {
	case "list":
		a, ok := l.Val.([]any)
		if !ok {
			return val(nil)
		}
		source = a
	case "slice":
		// Left is a KSlice node: l.Val is already the sliced value
		switch x := l.Val.(type) {
		case []any:
			source = x
		case string:
			// a slice of a string is a string, not a projection
			return in.eval(n.Right, x, e)
		default:
			return val(nil)
		}
	case "object":
		m, ok := l.Val.(map[string]any)
		if !ok {
			return val(nil)
		}
		keys := make([]string, 0, len(m))
		for k := range m {
			keys = append(keys, k)
		}
		sort.Strings(keys)
		for _, k := range keys {
			source = append(source, m[k])
		}
	case "filter":
		a, ok := l.Val.([]any)
		if !ok {
			return val(nil)
		}
		for _, x := range a {
			c := in.eval(n.Cond, x, e).inner()
			if c.bad() {
				return c
			}
			if truthy(c.Val) {
				source = append(source, x)
			}
		}
	case "flatten":
		a, ok := l.Val.([]any)
		if !ok {
			return val(nil)
		}
		for _, x := range a {
			if xa, ok := x.([]any); ok {
				source = append(source, xa...)
			} else {
				source = append(source, x)
			}
		}
	}
	out := make([]any, 0, len(source))
	for _, x := range source {
		r := in.eval(n.Right, x, e).inner()
		if r.bad() {
			return r
		}
		if r.Val != nil {
			out = append(out, r.Val)
		}
	}
	return val(out)
}

// sliceValue applies the specification's slice algorithm to an array or a string.
func sliceValue(v any, start, stop, step *big.Int) Res {
	var n int
	var runes []rune
	var arr []any
	switch x := v.(type) {
	case []any:
		arr, n = x, len(x)
	case string:
		runes = []rune(x)
		n = len(runes)
	case core.Foreign:
		return unsure("slice of a non-JSON value")
	default:
		return val(nil)
	}
	idx, zero := SliceWalk(n, start, stop, step)
	if zero {
		return fail("invalid-value")
	}
	if _, isStr := v.(string); isStr {
		out := make([]rune, 0, len(idx))
		for _, i := range idx {
			out = append(out, runes[i])
		}
		return val(string(out))
	}
	out := make([]any, 0, len(idx))
	for _, i := range idx {
		out = append(out, arr[i])
	}
	return val(out)
}

// SliceWalk is the slice algorithm of the specification (Python's
// slice.indices followed by the range walk), on arbitrary-precision bounds.
func SliceWalk(n int, start, stop, step *big.Int) (idx []int, stepZero bool) {
	N := big.NewInt(int64(n))
	st := big.NewInt(1)
	if step != nil {
		st = step
	}
	if st.Sign() == 0 {
		return nil, true
	}
	var lower, upper *big.Int
	if st.Sign() > 0 {
		lower, upper = big.NewInt(0), N
	} else {
		lower, upper = big.NewInt(-1), new(big.Int).Sub(N, big.NewInt(1))
	}
	clamp := func(v *big.Int, dflt *big.Int) *big.Int {
		if v == nil {
			return dflt
		}
		if v.Sign() < 0 {
			w := new(big.Int).Add(v, N)
			if w.Cmp(lower) < 0 {
				return lower
			}
			return w
		}
		if v.Cmp(upper) > 0 {
			return upper
		}
		return v
	}
	var s, e *big.Int
	if st.Sign() > 0 {
		s, e = clamp(start, lower), clamp(stop, upper)
		for i := new(big.Int).Set(s); i.Cmp(e) < 0; i = new(big.Int).Add(i, st) {
			idx = append(idx, int(i.Int64()))
		}
	} else {
		s, e = clamp(start, upper), clamp(stop, lower)
		for i := new(big.Int).Set(s); i.Cmp(e) > 0; i = new(big.Int).Add(i, st) {
			idx = append(idx, int(i.Int64()))
		}
	}
	return idx, false
}

func compare(op string, a, b any) Res {
	switch op {
	case "==", "!=":
		eq, ok := deepEqual(a, b)
		if !ok {
			return unsure("equality involving a number outside the modelled range or a non-JSON value")
		}
		if op == "!=" {
			return val(!eq)
		}
		return val(eq)
	}
	x, xn := a.(*core.Num)
	y, yn := b.(*core.Num)
	if _, s := a.(string); s {
		return unsure("ordering comparison with a string operand")
	}
	if _, s := b.(string); s {
		return unsure("ordering comparison with a string operand")
	}
	if _, f := a.(core.Foreign); f {
		return unsure("ordering comparison with a non-JSON value")
	}
	if _, f := b.(core.Foreign); f {
		return unsure("ordering comparison with a non-JSON value")
	}
	if !xn || !yn {
		return val(nil)
	}
	if !numOK(x) || !numOK(y) {
		return unsure("number outside the modelled range")
	}
	c := x.R.Cmp(y.R)
	switch op {
	case "<":
		return val(c < 0)
	case "<=":
		return val(c <= 0)
	case ">":
		return val(c > 0)
	case ">=":
		return val(c >= 0)
	}
	return unsure("unknown comparator")
}

// DeepEqual is the reference's JSON equality on normalised values; ok=false
// when a number outside the modelled domain or a non-JSON value is involved.
func DeepEqual(a, b any) (eq bool, ok bool) { return deepEqual(a, b) }

// Truthy is the reference's truth rule.
func Truthy(v any) bool { return truthy(v) }
