// Package ref is the reference model: an independent, deliberately boring
// JMESPath (Community edition) interpreter used as the oracle of the
// differential checks. It is written from the specification's grammar and the
// reference implementations' binding-power table, with unfused tokens and an
// AST without fused nodes, exact rational arithmetic and three-valued verdicts
// (value / error categories / undetermined).
package ref

import (
	"unicode/utf8"
)

type tokKind int

const (
	tEOF tokKind = iota
	tIdent
	tQuoted
	tRaw
	tLiteral
	tNumber
	tVariable
	tRoot
	tCurrent
	tExpref
	tDot
	tComma
	tColon
	tLparen
	tRparen
	tLbrace
	tRbrace
	tLbracket
	tRbracket
	tFlatten // []
	tFilter  // [?
	tStar
	tPipe
	tOr
	tAnd
	tNot
	tEQ
	tNE
	tLT
	tLE
	tGT
	tGE
	tPlus
	tMinus
	tTimes  // × (U+00D7); '*' is tStar and decided by position
	tDivide // / or ÷
	tIntDiv // //
	tMod
	tAssign
	tLexErr // the scanner failed here: no rule accepts it
)

type token struct {
	kind tokKind
	text string // source text
	pos  int    // byte offset
	end  int
	ws   bool // preceded by whitespace
}

// lexError is a syntax error found while scanning.
type lexError struct {
	pos int
	msg string
}

func isIdentStart(c byte) bool {
	return c >= 'A' && c <= 'Z' || c >= 'a' && c <= 'z' || c == '_'
}
func isIdentPart(c byte) bool { return isIdentStart(c) || c >= '0' && c <= '9' }

func lex(src string) ([]token, *lexError) {
	if !utf8.ValidString(src) {
		// find the offset for the message
		for i := 0; i < len(src); {
			r, sz := utf8.DecodeRuneInString(src[i:])
			if r == utf8.RuneError && sz <= 1 {
				// the valid prefix still yields tokens (a lazy scanner sees them before the bad byte)
				toks, lerr := lex(src[:i])
				if lerr != nil {
					return toks, lerr
				}
				return toks[:len(toks)-1], &lexError{i, "invalid UTF-8"}
			}
			i += sz
		}
	}
	var toks []token
	i := 0
	ws := false
	emit := func(k tokKind, start, end int) {
		toks = append(toks, token{k, src[start:end], start, end, ws})
		ws = false
	}
	for i < len(src) {
		c := src[i]
		switch {
		case c == ' ' || c == '\t' || c == '\n' || c == '\r':
			ws = true
			i++
		case isIdentStart(c):
			j := i + 1
			for j < len(src) && isIdentPart(src[j]) {
				j++
			}
			emit(tIdent, i, j)
			i = j
		case c >= '0' && c <= '9' || c == '-' && i+1 < len(src) && src[i+1] >= '0' && src[i+1] <= '9':
			j := i + 1
			for j < len(src) && src[j] >= '0' && src[j] <= '9' {
				j++
			}
			emit(tNumber, i, j)
			i = j
		case c == '"' || c == '\'' || c == '`':
			j := i + 1
			closed := false
			for j < len(src) {
				if src[j] == '\\' {
					if j+1 >= len(src) {
						break
					}
					_, sz := utf8.DecodeRuneInString(src[j+1:])
					j += 1 + sz
					continue
				}
				if src[j] == c {
					closed = true
					j++
					break
				}
				j++
			}
			if !closed {
				return toks, &lexError{i, "unterminated " + string(c) + " token"}
			}
			switch c {
			case '"':
				emit(tQuoted, i, j)
			case '\'':
				emit(tRaw, i, j)
			default:
				emit(tLiteral, i, j)
			}
			i = j
		case c == '$':
			if i+1 < len(src) && isIdentStart(src[i+1]) {
				j := i + 2
				for j < len(src) && isIdentPart(src[j]) {
					j++
				}
				emit(tVariable, i, j)
				i = j
			} else {
				emit(tRoot, i, i+1)
				i++
			}
		case c == '@':
			emit(tCurrent, i, i+1)
			i++
		case c == '&':
			if i+1 < len(src) && src[i+1] == '&' {
				emit(tAnd, i, i+2)
				i += 2
			} else {
				emit(tExpref, i, i+1)
				i++
			}
		case c == '|':
			if i+1 < len(src) && src[i+1] == '|' {
				emit(tOr, i, i+2)
				i += 2
			} else {
				emit(tPipe, i, i+1)
				i++
			}
		case c == '=':
			if i+1 < len(src) && src[i+1] == '=' {
				emit(tEQ, i, i+2)
				i += 2
			} else {
				emit(tAssign, i, i+1)
				i++
			}
		case c == '!':
			if i+1 < len(src) && src[i+1] == '=' {
				emit(tNE, i, i+2)
				i += 2
			} else {
				emit(tNot, i, i+1)
				i++
			}
		case c == '<':
			if i+1 < len(src) && src[i+1] == '=' {
				emit(tLE, i, i+2)
				i += 2
			} else {
				emit(tLT, i, i+1)
				i++
			}
		case c == '>':
			if i+1 < len(src) && src[i+1] == '=' {
				emit(tGE, i, i+2)
				i += 2
			} else {
				emit(tGT, i, i+1)
				i++
			}
		case c == '/':
			if i+1 < len(src) && src[i+1] == '/' {
				emit(tIntDiv, i, i+2)
				i += 2
			} else {
				emit(tDivide, i, i+1)
				i++
			}
		case c == '[':
			if i+1 < len(src) && src[i+1] == ']' {
				emit(tFlatten, i, i+2)
				i += 2
			} else if i+1 < len(src) && src[i+1] == '?' {
				emit(tFilter, i, i+2)
				i += 2
			} else {
				emit(tLbracket, i, i+1)
				i++
			}
		case c == ']':
			emit(tRbracket, i, i+1)
			i++
		case c == '.':
			emit(tDot, i, i+1)
			i++
		case c == ',':
			emit(tComma, i, i+1)
			i++
		case c == ':':
			emit(tColon, i, i+1)
			i++
		case c == '(':
			emit(tLparen, i, i+1)
			i++
		case c == ')':
			emit(tRparen, i, i+1)
			i++
		case c == '{':
			emit(tLbrace, i, i+1)
			i++
		case c == '}':
			emit(tRbrace, i, i+1)
			i++
		case c == '*':
			emit(tStar, i, i+1)
			i++
		case c == '+':
			emit(tPlus, i, i+1)
			i++
		case c == '-':
			emit(tMinus, i, i+1)
			i++
		case c == '%':
			emit(tMod, i, i+1)
			i++
		default:
			r, sz := utf8.DecodeRuneInString(src[i:])
			switch r {
			case '×':
				emit(tTimes, i, i+sz)
			case '÷':
				emit(tDivide, i, i+sz)
			case '−':
				emit(tMinus, i, i+sz)
			default:
				return toks, &lexError{i, "unexpected character"}
			}
			i += sz
		}
	}
	toks = append(toks, token{tEOF, "", len(src), len(src), ws})
	return toks, nil
}
