package ref

import (
	"math"
	"math/big"
	"sort"
	"strconv"
	"strings"
	"unicode"
	"unicode/utf8"

	"github.com/woodsbury/jmespath/internal/verifmc/core"
)

// Sig is the arity and expression-reference shape of a built-in.
type Sig struct {
	Min, Max int    // Max < 0: variadic
	Expr     []bool // per position: wants &expr (the last entry repeats)
}

// ExprAt reports whether position i wants an expression reference.
func (s Sig) ExprAt(i int) bool {
	if len(s.Expr) == 0 {
		return false
	}
	if i >= len(s.Expr) {
		return s.Expr[len(s.Expr)-1]
	}
	return s.Expr[i]
}

// Signatures of the built-in functions of the Community edition.
var Signatures = map[string]Sig{
	"abs": {1, 1, nil}, "avg": {1, 1, nil}, "ceil": {1, 1, nil}, "contains": {2, 2, nil},
	"ends_with": {2, 2, nil}, "find_first": {2, 4, nil}, "find_last": {2, 4, nil}, "floor": {1, 1, nil},
	"from_items": {1, 1, nil}, "group_by": {2, 2, []bool{false, true}}, "items": {1, 1, nil}, "join": {2, 2, nil},
	"keys": {1, 1, nil}, "length": {1, 1, nil}, "lower": {1, 1, nil}, "map": {2, 2, []bool{true, false}},
	"max": {1, 1, nil}, "max_by": {2, 2, []bool{false, true}}, "merge": {1, -1, nil}, "min": {1, 1, nil},
	"min_by": {2, 2, []bool{false, true}}, "not_null": {1, -1, nil}, "pad_left": {2, 3, nil}, "pad_right": {2, 3, nil},
	"replace": {3, 4, nil}, "reverse": {1, 1, nil}, "sort": {1, 1, nil}, "sort_by": {2, 2, []bool{false, true}},
	"split": {2, 3, nil}, "starts_with": {2, 2, nil}, "sum": {1, 1, nil}, "to_array": {1, 1, nil},
	"to_number": {1, 1, nil}, "to_string": {1, 1, nil}, "trim": {1, 2, nil}, "trim_left": {1, 2, nil},
	"trim_right": {1, 2, nil}, "type": {1, 1, nil}, "upper": {1, 1, nil}, "values": {1, 1, nil}, "zip": {1, -1, nil},
}

// FunctionNames lists the built-ins in a fixed order.
func FunctionNames() []string {
	var names []string
	for n := range Signatures {
		names = append(names, n)
	}
	sort.Strings(names)
	return names
}

// TypeOf names the JSON type of a normalised value ("foreign" for anything else).
func TypeOf(v any) string {
	switch v.(type) {
	case nil:
		return "null"
	case bool:
		return "boolean"
	case string:
		return "string"
	case *core.Num:
		return "number"
	case []any:
		return "array"
	case map[string]any:
		return "object"
	case closure:
		return "expref"
	}
	return "foreign"
}

// ---------------------------------------------------------------------------
// numbers

const (
	maxDigits = 34
	maxAdjExp = 6144
	minAdjExp = -6143
)

// DecimalShape describes a rational as a decimal: coefficient digits and the
// exponent of its most significant digit; exact=false when it has no finite
// decimal expansion.
func DecimalShape(r *big.Rat) (digits int, adjExp int, exact bool) {
	if r.Sign() == 0 {
		return 1, 0, true
	}
	num := new(big.Int).Abs(r.Num())
	den := r.Denom()
	// den must be 2^a * 5^b
	a := int(den.TrailingZeroBits())
	odd := new(big.Int).Rsh(den, uint(a))
	b := 0
	if odd.Cmp(big.NewInt(1)) != 0 {
		// odd must be 5^b: estimate b from the bit length and verify
		b = int(float64(odd.BitLen()-1)/2.321928094887362 + 0.5)
		if b < 1 {
			b = 1
		}
		ok := false
		for _, c := range []int{b, b - 1, b + 1} {
			if c >= 1 && new(big.Int).Exp(big.NewInt(5), big.NewInt(int64(c)), nil).Cmp(odd) == 0 {
				b, ok = c, true
				break
			}
		}
		if !ok {
			return 0, 0, false
		}
	}
	// value = num / (2^a 5^b) = num * 2^(k-a) * 5^(k-b) / 10^k with k = max(a,b)
	k := a
	if b > k {
		k = b
	}
	c := num
	if k > a {
		c = new(big.Int).Lsh(c, uint(k-a))
	}
	if k > b {
		c = new(big.Int).Mul(c, new(big.Int).Exp(big.NewInt(5), big.NewInt(int64(k-b)), nil))
	}
	str := c.String()
	zeros := 0
	for zeros < len(str)-1 && str[len(str)-1-zeros] == '0' {
		zeros++
	}
	d := len(str) - zeros
	return d, -k + zeros + d - 1, true
}

// Magnitude returns the exponent of the most significant digit of |r| (r != 0).
func Magnitude(r *big.Rat) int {
	a := new(big.Rat).Abs(r)
	// estimate from bit lengths, then correct
	est := int(float64(a.Num().BitLen()-a.Denom().BitLen()) * 0.30103)
	p := pow10(est)
	for a.Cmp(p) < 0 {
		est--
		p = pow10(est)
	}
	for {
		n := pow10(est + 1)
		if a.Cmp(n) < 0 {
			break
		}
		est++
	}
	return est
}

func pow10(e int) *big.Rat {
	x := new(big.Int).Exp(big.NewInt(10), big.NewInt(int64(abs(e))), nil)
	if e >= 0 {
		return new(big.Rat).SetInt(x)
	}
	return new(big.Rat).SetFrac(big.NewInt(1), x)
}

func abs(i int) int {
	if i < 0 {
		return -i
	}
	return i
}

// Representable reports whether r is exactly a (normal) decimal128 value.
func Representable(r *big.Rat) bool {
	d, adj, exact := DecimalShape(r)
	if !exact {
		return false
	}
	if r.Sign() == 0 {
		return true
	}
	return d <= maxDigits && adj <= maxAdjExp && adj-(d-1) >= -6176 && adj >= minAdjExp
}

// numResult classifies an exact arithmetic result.
func numResult(r *big.Rat) Res {
	if r.Sign() == 0 {
		return val(&core.Num{R: r})
	}
	mag := Magnitude(r)
	if mag > maxAdjExp+40 {
		return fail("not-a-number")
	}
	if mag > maxAdjExp {
		// the decimal128 package keeps some results just above 9.99..e6144 finite (1e34 * 1e6111 is a finite
		// 1e+6145 there, 9e6144 + 9e6144 is +Inf): the exact top of the range is the dependency's business
		return unsure("result within 40 orders of magnitude above the largest decimal128 value")
	}
	if mag < minAdjExp {
		return unsure("result in the subnormal range")
	}
	if Representable(r) {
		return val(&core.Num{R: r})
	}
	// a result that rounds up to 10^(maxAdjExp+1) overflows; keep clear of the edge
	if mag == maxAdjExp {
		return unsure("inexact result at the edge of the exponent range")
	}
	return Res{Val: &core.Num{R: r}, Approx: true}
}

func operandOK(n *core.Num) bool {
	if !numOK(n) {
		return false
	}
	return Representable(n.R)
}

// Arith is exact arithmetic on two normalised values.
func Arith(op string, a, b any) Res {
	x, xn := a.(*core.Num)
	y, yn := b.(*core.Num)
	if !xn || !yn {
		if TypeOf(a) == "foreign" || TypeOf(b) == "foreign" {
			return unsure("arithmetic on a non-JSON value")
		}
		return unsure("arithmetic on a non-number (null or invalid-type)")
	}
	if !operandOK(x) || !operandOK(y) {
		return unsure("operand outside the decimal128 domain (more than 34 digits, exponent out of range, NaN or infinity)")
	}
	r := new(big.Rat)
	switch op {
	case "+":
		r.Add(x.R, y.R)
	case "-":
		r.Sub(x.R, y.R)
	case "*":
		r.Mul(x.R, y.R)
	case "/":
		if y.R.Sign() == 0 {
			return fail("not-a-number")
		}
		r.Quo(x.R, y.R)
	case "//", "%":
		if y.R.Sign() == 0 {
			return fail("not-a-number")
		}
		if x.R.Sign()*y.R.Sign() < 0 {
			return unsure("// and % with operands of different sign")
		}
		q := new(big.Rat).Quo(x.R, y.R)
		fl := new(big.Int).Quo(q.Num(), q.Denom()) // q >= 0: truncation == floor
		if op == "//" {
			// an enormous quotient has more than 34 digits: the decimal result is rounded
			r.SetInt(fl)
		} else {
			if Magnitude1(q) > 40 {
				return unsure("% with a quotient beyond 34 digits")
			}
			r.Sub(x.R, new(big.Rat).Mul(y.R, new(big.Rat).SetInt(fl)))
		}
	default:
		return unsure("unknown operator " + op)
	}
	return numResult(r)
}

// Magnitude1 is Magnitude tolerant of zero.
func Magnitude1(r *big.Rat) int {
	if r.Sign() == 0 {
		return 0
	}
	return Magnitude(r)
}

// WithinOneUlp reports whether got is within one unit of the 34th significant
// digit of the exact value want.
func WithinOneUlp(got, want *big.Rat) bool {
	if want.Sign() == 0 {
		return got.Sign() == 0
	}
	ulp := pow10(Magnitude(want) - (maxDigits - 1))
	d := new(big.Rat).Sub(got, want)
	d.Abs(d)
	return d.Cmp(ulp) <= 0
}

// ---------------------------------------------------------------------------
// function application

func (in *interp) apply(cl closure, v any) Res {
	return in.eval(cl.node, v, cl.env).inner()
}

type faults struct {
	cats []string
	u    string
}

// verdict: property C02 makes a call an invalid-type error exactly when an argument's type is outside the signature,
// and an invalid-value error only for well-typed arguments: a type fault dominates (the corpus pins it for find_first).
func (f *faults) verdict() Res {
	for _, c := range f.cats {
		if c == "invalid-type" {
			return fail("invalid-type")
		}
	}
	return fail(f.cats...)
}

func (f *faults) add(c string) {
	for _, x := range f.cats {
		if x == c {
			return
		}
	}
	f.cats = append(f.cats, c)
}

func (in *interp) call(n *Node, cur any, e *env) Res {
	args := make([]any, len(n.Items))
	var f faults
	argErr := make([]bool, len(n.Items))
	for i, it := range n.Items {
		r := in.eval(it, cur, e).inner()
		if r.U != "" {
			return r
		}
		if r.IsError() {
			for _, c := range r.Err {
				f.add(c)
			}
			argErr[i] = true
			if n.Name == "not_null" {
				// arguments after the first non-null one: evaluated eagerly or lazily?
				for j := 0; j < i; j++ {
					if !argErr[j] && args[j] != nil {
						return unsure("not_null: a failing argument after the first non-null one (eager vs lazy evaluation)")
					}
				}
			}
			continue
		}
		args[i] = r.Val
		if TypeOf(r.Val) == "foreign" {
			return unsure("non-JSON value as a function argument")
		}
	}
	if len(f.cats) > 0 {
		// faults of the other arguments are present as well, and a function may check an argument before it evaluates the
		// next one: a category the call reports whatever value stands in for the failed arguments is acceptable too
		reps := []any{nil, true, core.Norm(int64(0)), "", []any{}, map[string]any{}}
		count := map[string]int{}
		for _, rep := range reps {
			a2 := append([]any{}, args...)
			for i := range a2 {
				if argErr[i] {
					a2[i] = rep
				}
			}
			r := in.builtin(n.Name, a2)
			if r.U == "" && r.IsError() {
				for _, c := range r.Err {
					count[c]++
				}
			}
		}
		for _, c := range []string{"invalid-type", "invalid-value", "not-a-number"} {
			if count[c] == len(reps) {
				f.add(c)
			}
		}
		return fail(f.cats...)
	}
	return in.builtin(n.Name, args)
}

func isInt(n *core.Num) bool { return numOK(n) && n.R.IsInt() }

// intArg classifies an integer-valued argument: (value, fault category or "").
func intArg(v any) (int64, string, string) {
	n, ok := v.(*core.Num)
	if !ok {
		return 0, "invalid-type", ""
	}
	if !numOK(n) {
		return 0, "", "number outside the modelled range as an integer argument"
	}
	if !n.R.IsInt() {
		return 0, "invalid-value", ""
	}
	if !n.R.Num().IsInt64() {
		// an integer outside the 64-bit range is still a number: negative ones are invalid values; positive ones are
		// either rejected as invalid values or act as "unlimited" - anything but a type error (callers abstain on the value)
		if n.R.Sign() < 0 {
			return math.MinInt64, "", ""
		}
		return 0, "", "integer argument beyond 64 bits"
	}
	return n.R.Num().Int64(), "", ""
}

func strArg(v any) (string, bool) { s, ok := v.(string); return s, ok }

func allOf(a []any, typ string) bool {
	for _, x := range a {
		if TypeOf(x) != typ {
			return false
		}
	}
	return true
}

func intVal(i int) *core.Num { return &core.Num{R: new(big.Rat).SetInt64(int64(i))} }

func cmpStr(a, b string) int { return strings.Compare(a, b) }

func sortedKeys(m map[string]any) []string {
	keys := make([]string, 0, len(m))
	for k := range m {
		keys = append(keys, k)
	}
	sort.Strings(keys)
	return keys
}

func (in *interp) builtin(name string, a []any) Res {
	T := func() Res { return fail("invalid-type") }
	V := func() Res { return fail("invalid-value") }
	switch name {
	case "abs", "ceil", "floor":
		x, ok := a[0].(*core.Num)
		if !ok {
			return T()
		}
		if !operandOK(x) {
			return unsure("operand outside the decimal128 domain")
		}
		switch name {
		case "abs":
			return val(&core.Num{R: new(big.Rat).Abs(x.R)})
		case "floor":
			return val(&core.Num{R: new(big.Rat).SetInt(floorRat(x.R))})
		default:
			fl := floorRat(x.R)
			if !x.R.IsInt() {
				fl.Add(fl, big.NewInt(1))
			}
			return val(&core.Num{R: new(big.Rat).SetInt(fl)})
		}
	case "avg", "sum":
		arr, ok := a[0].([]any)
		if !ok || !allOf(arr, "number") {
			return T()
		}
		if len(arr) == 0 {
			if name == "avg" {
				return val(nil)
			}
			return val(intVal(0))
		}
		s := new(big.Rat)
		for _, x := range arr {
			n := x.(*core.Num)
			if !operandOK(n) {
				return unsure("operand outside the decimal128 domain")
			}
			s = new(big.Rat).Add(s, n.R)
			if !Representable(s) {
				return unsure("a partial sum is not exactly representable")
			}
		}
		if name == "sum" {
			return numResult(s)
		}
		return numResult(new(big.Rat).Quo(s, new(big.Rat).SetInt64(int64(len(arr)))))
	case "contains":
		switch x := a[0].(type) {
		case []any:
			for _, el := range x {
				eq, ok := deepEqual(el, a[1])
				if !ok {
					return unsure("equality involving a number outside the modelled range")
				}
				if eq {
					return val(true)
				}
			}
			return val(false)
		case string:
			s, ok := a[1].(string)
			if !ok {
				return unsure("contains(string, non-string)")
			}
			return val(strings.Contains(x, s))
		}
		return T()
	case "starts_with", "ends_with":
		s, ok1 := strArg(a[0])
		p, ok2 := strArg(a[1])
		if !ok1 || !ok2 {
			return T()
		}
		if name == "starts_with" {
			return val(strings.HasPrefix(s, p))
		}
		return val(strings.HasSuffix(s, p))
	case "find_first", "find_last":
		s, ok1 := strArg(a[0])
		sub, ok2 := strArg(a[1])
		var f faults
		if !ok1 || !ok2 {
			f.add("invalid-type")
		}
		rs := []rune(s)
		start, end := int64(0), int64(len(rs))
		neg := false
		for i := 2; i < len(a); i++ {
			v, cat, u := intArg(a[i])
			if u != "" {
				return unsure(u)
			}
			if cat != "" {
				f.add(cat)
				continue
			}
			if v < 0 {
				neg = true
			}
			if i == 2 {
				start = v
			} else {
				end = v
			}
		}
		if len(f.cats) > 0 {
			return f.verdict()
		}
		if neg {
			return unsure("negative start or end in find_first/find_last")
		}
		if sub == "" {
			return val(nil)
		}
		if end > int64(len(rs)) {
			end = int64(len(rs))
		}
		if start >= end {
			return val(nil)
		}
		win := rs[start:end]
		ss := []rune(sub)
		pos := -1
		for i := 0; i+len(ss) <= len(win); i++ {
			if string(win[i:i+len(ss)]) == sub {
				pos = i
				if name == "find_first" {
					break
				}
			}
		}
		if pos < 0 {
			return val(nil)
		}
		return val(intVal(int(start) + pos))
	case "from_items":
		arr, ok := a[0].([]any)
		if !ok {
			return T()
		}
		out := map[string]any{}
		for _, it := range arr {
			p, ok := it.([]any)
			if !ok {
				return fail("invalid-type", "invalid-value")
			}
			if len(p) != 2 {
				return V()
			}
			k, ok := p[0].(string)
			if !ok {
				return fail("invalid-value", "invalid-type")
			}
			out[k] = p[1]
		}
		return val(out)
	case "group_by":
		arr, ok := a[0].([]any)
		cl, ok2 := a[1].(closure)
		if !ok || !ok2 {
			return T()
		}
		if len(arr) == 0 {
			return unsure("group_by of an empty array")
		}
		out := map[string]any{}
		for _, el := range arr {
			k := in.apply(cl, el)
			if k.bad() {
				return k
			}
			if k.Val == nil {
				return unsure("group_by with a null key")
			}
			ks, ok := k.Val.(string)
			if !ok {
				return T()
			}
			prev, _ := out[ks].([]any)
			out[ks] = append(append([]any{}, prev...), el)
		}
		return val(out)
	case "items", "keys", "values":
		m, ok := a[0].(map[string]any)
		if !ok {
			return T()
		}
		out := make([]any, 0, len(m))
		for _, k := range sortedKeys(m) {
			switch name {
			case "items":
				out = append(out, []any{k, m[k]})
			case "keys":
				out = append(out, k)
			default:
				out = append(out, m[k])
			}
		}
		return val(out)
	case "join":
		glue, ok1 := strArg(a[0])
		arr, ok2 := a[1].([]any)
		if !ok1 || !ok2 || !allOf(arr, "string") {
			return T()
		}
		parts := make([]string, len(arr))
		for i, x := range arr {
			parts[i] = x.(string)
		}
		return val(strings.Join(parts, glue))
	case "length":
		switch x := a[0].(type) {
		case string:
			return val(intVal(utf8.RuneCountInString(x)))
		case []any:
			return val(intVal(len(x)))
		case map[string]any:
			return val(intVal(len(x)))
		}
		return T()
	case "lower", "upper":
		s, ok := strArg(a[0])
		if !ok {
			return T()
		}
		for i := 0; i < len(s); i++ {
			if s[i] >= 0x80 {
				return unsure("lower/upper outside ASCII")
			}
		}
		if name == "lower" {
			return val(strings.ToLower(s))
		}
		return val(strings.ToUpper(s))
	case "map":
		cl, ok1 := a[0].(closure)
		arr, ok2 := a[1].([]any)
		if !ok1 || !ok2 {
			return T()
		}
		out := make([]any, 0, len(arr))
		for _, el := range arr {
			r := in.apply(cl, el)
			if r.bad() {
				return r
			}
			out = append(out, r.Val)
		}
		return val(out)
	case "max", "min", "sort":
		arr, ok := a[0].([]any)
		if !ok {
			return T()
		}
		if len(arr) == 0 {
			if name == "sort" {
				return val([]any{})
			}
			return val(nil)
		}
		kind := TypeOf(arr[0])
		if kind != "number" && kind != "string" || !allOf(arr, kind) {
			return T()
		}
		cp := append([]any{}, arr...)
		bad := false
		for _, x := range cp {
			if n, isN := x.(*core.Num); isN && !numOK(n) {
				bad = true // also in a one-element array, which the comparison below never looks at
			}
		}
		sort.SliceStable(cp, func(i, j int) bool {
			if kind == "string" {
				return cp[i].(string) < cp[j].(string)
			}
			x, y := cp[i].(*core.Num), cp[j].(*core.Num)
			if !numOK(x) || !numOK(y) {
				bad = true
				return false
			}
			return x.R.Cmp(y.R) < 0
		})
		if bad {
			return unsure("number outside the modelled range")
		}
		switch name {
		case "sort":
			return val(cp)
		case "min":
			return val(cp[0])
		}
		return val(cp[len(cp)-1])
	case "max_by", "min_by", "sort_by":
		arr, ok := a[0].([]any)
		cl, ok2 := a[1].(closure)
		if !ok || !ok2 {
			return T()
		}
		if len(arr) == 0 {
			if name == "sort_by" {
				return val([]any{})
			}
			return val(nil)
		}
		keys := make([]any, len(arr))
		for i, el := range arr {
			r := in.apply(cl, el)
			if r.bad() {
				return r
			}
			keys[i] = r.Val
		}
		kind := TypeOf(keys[0])
		if kind != "number" && kind != "string" || !allOf(keys, kind) {
			return T()
		}
		for _, k := range keys {
			if n, ok := k.(*core.Num); ok && !numOK(n) {
				return unsure("number outside the modelled range")
			}
		}
		less := func(i, j int) bool {
			if kind == "string" {
				return keys[i].(string) < keys[j].(string)
			}
			return keys[i].(*core.Num).R.Cmp(keys[j].(*core.Num).R) < 0
		}
		idx := make([]int, len(arr))
		for i := range idx {
			idx[i] = i
		}
		sort.SliceStable(idx, func(x, y int) bool { return less(idx[x], idx[y]) })
		if name == "sort_by" {
			out := make([]any, len(arr))
			for i, j := range idx {
				out[i] = arr[j]
			}
			return val(out)
		}
		// every element whose key is extremal is acceptable
		var ext int
		if name == "min_by" {
			ext = idx[0]
		} else {
			ext = idx[len(idx)-1]
		}
		var alts []any
		for i := range arr {
			if !less(i, ext) && !less(ext, i) {
				dup := false
				for _, x := range alts {
					if core.Equal(x, arr[i]) {
						dup = true
					}
				}
				if !dup {
					alts = append(alts, arr[i])
				}
			}
		}
		if len(alts) == 1 {
			return val(alts[0])
		}
		return Res{Alts: alts}
	case "merge":
		out := map[string]any{}
		for _, x := range a {
			m, ok := x.(map[string]any)
			if !ok {
				return T()
			}
			for k, v := range m {
				out[k] = v
			}
		}
		return val(out)
	case "not_null":
		for _, x := range a {
			if x != nil {
				return val(x)
			}
		}
		return val(nil)
	case "pad_left", "pad_right":
		s, ok := strArg(a[0])
		var f faults
		if !ok {
			f.add("invalid-type")
		}
		w, cat, u := intArg(a[1])
		if u != "" {
			return unsure(u)
		}
		if cat != "" {
			f.add(cat)
		} else if w < 0 {
			f.add("invalid-value")
		}
		pad := " "
		if len(a) > 2 {
			p, ok := strArg(a[2])
			if !ok {
				f.add("invalid-type")
			} else if utf8.RuneCountInString(p) != 1 {
				f.add("invalid-value")
			}
			pad = p
		}
		if len(f.cats) > 0 {
			return f.verdict()
		}
		if w > 1<<20 {
			return unsure("pad width beyond the modelled range")
		}
		n := int(w) - utf8.RuneCountInString(s)
		if n <= 0 {
			return val(s)
		}
		if name == "pad_left" {
			return val(strings.Repeat(pad, n) + s)
		}
		return val(s + strings.Repeat(pad, n))
	case "replace":
		s, ok1 := strArg(a[0])
		old, ok2 := strArg(a[1])
		nw, ok3 := strArg(a[2])
		var f faults
		if !ok1 || !ok2 || !ok3 {
			f.add("invalid-type")
		}
		count := int64(-1)
		if len(a) > 3 {
			c, cat, u := intArg(a[3])
			if u != "" {
				return unsure(u)
			}
			if cat != "" {
				f.add(cat)
			} else if c < 0 {
				f.add("invalid-value")
			}
			count = c
		}
		if len(f.cats) > 0 {
			return f.verdict()
		}
		if old == "" {
			return unsure("replace with an empty search string")
		}
		if count > 1<<30 {
			count = -1
		}
		return val(strings.Replace(s, old, nw, int(count)))
	case "reverse":
		switch x := a[0].(type) {
		case string:
			rs := []rune(x)
			for i, j := 0, len(rs)-1; i < j; i, j = i+1, j-1 {
				rs[i], rs[j] = rs[j], rs[i]
			}
			return val(string(rs))
		case []any:
			out := make([]any, len(x))
			for i := range x {
				out[len(x)-1-i] = x[i]
			}
			return val(out)
		}
		return T()
	case "split":
		s, ok1 := strArg(a[0])
		sep, ok2 := strArg(a[1])
		var f faults
		if !ok1 || !ok2 {
			f.add("invalid-type")
		}
		count := int64(-1)
		if len(a) > 2 {
			c, cat, u := intArg(a[2])
			if u != "" {
				return unsure(u)
			}
			if cat != "" {
				f.add(cat)
			} else if c < 0 {
				f.add("invalid-value")
			}
			count = c
		}
		if len(f.cats) > 0 {
			return f.verdict()
		}
		toAny := func(ss []string) []any {
			out := make([]any, len(ss))
			for i, x := range ss {
				out[i] = x
			}
			return out
		}
		if count == 0 {
			return val([]any{s})
		}
		if s == "" {
			if sep == "" {
				return val([]any{})
			}
			return unsure("split of an empty string on a non-empty separator")
		}
		if sep == "" {
			rs := []rune(s)
			var parts []string
			for _, r := range rs {
				parts = append(parts, string(r))
			}
			if count < 0 || count > int64(len(rs))-1 {
				if count >= int64(len(rs)) {
					// the reference implementation appends an empty remainder here
					return Res{Alts: []any{toAny(parts), toAny(append(append([]string{}, parts...), ""))}}
				}
				return val(toAny(parts))
			}
			head := append([]string{}, parts[:count]...)
			head = append(head, string(rs[count:]))
			return val(toAny(head))
		}
		if count < 0 || count > 1<<30 {
			return val(toAny(strings.Split(s, sep)))
		}
		return val(toAny(strings.SplitN(s, sep, int(count)+1)))
	case "to_array":
		if arr, ok := a[0].([]any); ok {
			return val(arr)
		}
		return val([]any{a[0]})
	case "to_number":
		switch x := a[0].(type) {
		case *core.Num:
			return val(x)
		case string:
			if !jsonNumber(x) {
				return val(nil)
			}
			r, ok := core.ParseDecimal(x)
			if !ok || !Representable(r) {
				return unsure("to_number of text outside the decimal128 domain")
			}
			return val(&core.Num{R: r})
		}
		return val(nil)
	case "to_string":
		if s, ok := a[0].(string); ok {
			return val(s)
		}
		t, ok := simpleJSON(a[0])
		if !ok {
			return Res{Val: a[0], JSONText: true}
		}
		return val(t)
	case "trim", "trim_left", "trim_right":
		s, ok := strArg(a[0])
		if !ok {
			return T()
		}
		chars := ""
		if len(a) > 1 {
			c, ok := strArg(a[1])
			if !ok {
				return T()
			}
			chars = c
		}
		left, right := name != "trim_right", name != "trim_left"
		if chars == "" {
			// the corpus pins exactly the Unicode White_Space set
			isWS := unicode.IsSpace
			odd := func(r rune) bool { return r >= 0x1c && r <= 0x1f }
			out := s
			if left {
				out = strings.TrimLeftFunc(out, isWS)
				if r, _ := utf8.DecodeRuneInString(out); out != "" && odd(r) {
					return unsure("whitespace-like character outside the pinned set")
				}
			}
			if right {
				out = strings.TrimRightFunc(out, isWS)
				if r, _ := utf8.DecodeLastRuneInString(out); out != "" && odd(r) {
					return unsure("whitespace-like character outside the pinned set")
				}
			}
			return val(out)
		}
		in := func(r rune) bool { return strings.ContainsRune(chars, r) }
		out := s
		if left {
			out = strings.TrimLeftFunc(out, in)
		}
		if right {
			out = strings.TrimRightFunc(out, in)
		}
		return val(out)
	case "type":
		t := TypeOf(a[0])
		if t == "foreign" || t == "expref" {
			return unsure("type of a non-JSON value")
		}
		return val(t)
	case "zip":
		n := -1
		for _, x := range a {
			arr, ok := x.([]any)
			if !ok {
				return T()
			}
			if n < 0 || len(arr) < n {
				n = len(arr)
			}
		}
		out := make([]any, 0, n)
		for i := 0; i < n; i++ {
			row := make([]any, len(a))
			for j, x := range a {
				row[j] = x.([]any)[i]
			}
			out = append(out, row)
		}
		return val(out)
	}
	return unsure("function not modelled: " + name)
}

func floorRat(r *big.Rat) *big.Int {
	q := new(big.Int)
	m := new(big.Int)
	q.DivMod(r.Num(), r.Denom(), m) // Euclidean: remainder >= 0, so q is the floor
	return q
}

// jsonNumber reports whether s matches the JSON number production exactly.
func jsonNumber(s string) bool {
	i := 0
	if i < len(s) && s[i] == '-' {
		i++
	}
	if i >= len(s) {
		return false
	}
	if s[i] == '0' {
		i++
	} else if s[i] >= '1' && s[i] <= '9' {
		for i < len(s) && s[i] >= '0' && s[i] <= '9' {
			i++
		}
	} else {
		return false
	}
	if i < len(s) && s[i] == '.' {
		i++
		j := i
		for i < len(s) && s[i] >= '0' && s[i] <= '9' {
			i++
		}
		if i == j {
			return false
		}
	}
	if i < len(s) && (s[i] == 'e' || s[i] == 'E') {
		i++
		if i < len(s) && (s[i] == '+' || s[i] == '-') {
			i++
		}
		j := i
		for i < len(s) && s[i] >= '0' && s[i] <= '9' {
			i++
		}
		if i == j {
			return false
		}
	}
	return i == len(s)
}

// simpleJSON renders values whose JSON text is unambiguous (null, booleans,
// integers, plain ASCII strings, arrays of those, objects with at most one member).
func simpleJSON(v any) (string, bool) {
	switch x := v.(type) {
	case nil:
		return "null", true
	case bool:
		if x {
			return "true", true
		}
		return "false", true
	case *core.Num:
		// 100, 1e2 and 100.0 are all JSON texts of the same number: not pinned
		return "", false
	case string:
		for i := 0; i < len(x); i++ {
			c := x[i]
			if c < 0x20 || c >= 0x7f || c == '"' || c == '\\' || c == '<' || c == '>' || c == '&' || c == '/' {
				return "", false
			}
		}
		return strconv.Quote(x), true
	case []any:
		parts := make([]string, len(x))
		for i, e := range x {
			s, ok := simpleJSON(e)
			if !ok {
				return "", false
			}
			parts[i] = s
		}
		return "[" + strings.Join(parts, ",") + "]", true
	case map[string]any:
		if len(x) > 1 {
			return "", false
		}
		for k, e := range x {
			ks, ok := simpleJSON(k)
			if !ok {
				return "", false
			}
			s, ok := simpleJSON(e)
			if !ok {
				return "", false
			}
			return "{" + ks + ":" + s + "}", true
		}
		return "{}", true
	}
	return "", false
}
