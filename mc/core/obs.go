package core

import (
	"errors"
	"fmt"
	"sort"
	"strings"

	"github.com/woodsbury/jmespath"
	"github.com/woodsbury/jmespath/internal/verifrt"
)

// EnableTicks arms the deterministic cost budget of the instrumented build: a
// call that executes more than budget loop iterations inside the library is
// aborted and observed as kind "budget". No-op on the pristine build.
func EnableTicks(budget int64) {
	if !verifrt.Instrumented {
		return
	}
	verifrt.TickOn = true
	verifrt.TickBudget = budget
	PanicHook = func(r any) (string, bool) {
		if _, ok := r.(verifrt.BudgetExceeded); ok {
			return "budget", true
		}
		return "", false
	}
}

// LastTicks is the number of loop iterations of the most recent call.
func LastTicks() int64 { return verifrt.Ticks }

func resetTicks() {
	if verifrt.TickOn {
		verifrt.Ticks = 0
	}
}

// Category names, in the order they are probed.
var Categories = []string{"syntax", "invalid-arity", "unknown-function", "invalid-type", "invalid-value", "undefined-variable", "not-a-number", "evaluation-failed"}

var sentinels = map[string]error{
	"syntax":             jmespath.ErrSyntax,
	"invalid-arity":      jmespath.ErrInvalidArity,
	"unknown-function":   jmespath.ErrUnknownFunction,
	"invalid-type":       jmespath.ErrInvalidType,
	"invalid-value":      jmespath.ErrInvalidValue,
	"undefined-variable": jmespath.ErrUndefinedVariable,
	"not-a-number":       jmespath.ErrNotANumber,
	"evaluation-failed":  jmespath.ErrEvaluationFailed,
}

// Obs is what one API call was observed to do.
type Obs struct {
	Kind    string   // "ok", "err", "panic", "budget"
	Raw     any      // ok: the raw result
	Val     any      // ok: the normalised result
	Cats    []string // err: categories matched under errors.Is (all eight probed)
	Msg     string   // err: Error() text; panic: the recovered value
	BothSet bool     // err: a non-nil result was returned beside the error
	FmtFail string   // err: formatting the error panicked
}

// Key is a canonical rendering: two observations are "the same outcome" iff
// their keys are equal.
func (o Obs) Key() string {
	switch o.Kind {
	case "ok":
		return "ok:" + Canon(o.Val)
	case "err":
		return "err:" + strings.Join(o.Cats, "+")
	}
	return o.Kind
}

// Short is a human-readable rendering.
func (o Obs) Short() string {
	switch o.Kind {
	case "ok":
		s := Canon(o.Val)
		if len(s) > 300 {
			s = s[:300] + "..."
		}
		return "ok " + s
	case "err":
		return "error[" + strings.Join(o.Cats, "+") + "] " + trunc(o.Msg, 200)
	}
	return o.Kind + " " + trunc(o.Msg, 300)
}

func trunc(s string, n int) string {
	if len(s) > n {
		return s[:n] + "..."
	}
	return s
}

// Trivial reports whether the outcome is null, an empty container or a failure.
func (o Obs) Trivial() bool {
	if o.Kind != "ok" {
		return true
	}
	switch x := o.Val.(type) {
	case nil:
		return true
	case []any:
		return len(x) == 0
	case map[string]any:
		return len(x) == 0
	case string:
		return x == ""
	}
	return false
}

func errObs(res any, err error) (o Obs) {
	o.Kind = "err"
	o.BothSet = res != nil
	defer func() {
		if r := recover(); r != nil {
			o.FmtFail = fmt.Sprint(r)
		}
	}()
	for _, c := range Categories {
		if errors.Is(err, sentinels[c]) {
			o.Cats = append(o.Cats, c)
		}
	}
	sort.Strings(o.Cats)
	o.Msg = err.Error()
	_ = fmt.Sprintf("%v %+v %q %s", err, err, err, err)
	return o
}

func okObs(res any) Obs {
	return Obs{Kind: "ok", Raw: res, Val: Norm(res)}
}

// PanicHook, when set, is consulted with every recovered panic value; it lets
// the tick budget surface as its own observation kind.
var PanicHook func(r any) (kind string, ok bool)

func recovered(r any) Obs {
	if PanicHook != nil {
		if k, ok := PanicHook(r); ok {
			return Obs{Kind: k, Msg: fmt.Sprint(r)}
		}
	}
	return Obs{Kind: "panic", Msg: fmt.Sprint(r)}
}

// Search calls jmespath.Search under recover.
func Search(expr string, data any) (o Obs) {
	defer func() {
		if r := recover(); r != nil {
			o = recovered(r)
		}
	}()
	resetTicks()
	res, err := jmespath.Search(expr, data)
	if err != nil {
		return errObs(res, err)
	}
	return okObs(res)
}

// Compile calls jmespath.Compile under recover.
func Compile(expr string) (e *jmespath.Expression, o Obs) {
	defer func() {
		if r := recover(); r != nil {
			e, o = nil, recovered(r)
		}
	}()
	resetTicks()
	ex, err := jmespath.Compile(expr)
	if err != nil {
		ob := errObs(nil, err)
		ob.BothSet = ex != nil
		return nil, ob
	}
	if ex == nil {
		return nil, Obs{Kind: "panic", Msg: "Compile returned (nil, nil)"}
	}
	return ex, Obs{Kind: "ok"}
}

// MustCompile calls jmespath.MustCompile and reports whether it panicked.
func MustCompile(expr string) (e *jmespath.Expression, panicked bool, msg string) {
	defer func() {
		if r := recover(); r != nil {
			e, panicked, msg = nil, true, fmt.Sprint(r)
		}
	}()
	return jmespath.MustCompile(expr), false, ""
}

// ExprSearch calls (*Expression).Search under recover.
func ExprSearch(e *jmespath.Expression, data any) (o Obs) {
	defer func() {
		if r := recover(); r != nil {
			o = recovered(r)
		}
	}()
	resetTicks()
	res, err := e.Search(data)
	if err != nil {
		return errObs(res, err)
	}
	return okObs(res)
}
