package core

import (
	"context"
	"encoding/binary"
	"encoding/json"
	"fmt"
	"hash/fnv"
	"os"
	"os/exec"
	"path/filepath"
	"regexp"
	"sort"
	"strconv"
	"strings"
	"sync"
	"sync/atomic"
	"syscall"
	"time"
)

// Check is one registered property check.
type Check struct {
	ID     string
	Title  string
	Rule   string // how cases are enumerated and what counts as non-trivial
	Phases []Phase
	// Judge re-evaluates one recorded point (used by replay and by the
	// reproducibility gate); it returns nil when the point does not violate.
	Judge       func(r *Run, phase string, point map[string]any) *Violation
	Assumptions []string
}

// Phase is one part of a check, run sharded over worker processes of one build.
type Phase struct {
	Name  string
	Build string // "pristine" or "instr"
	Procs int    // 0 = default
	// CrashIsViolation: a worker that dies is an observation about the input it
	// was running (C03/C09) instead of an internal error.
	CrashIsViolation bool
	// ProcsFn, when set, gives the number of shards for a tier (used by phases
	// that run every item in a process of its own).
	ProcsFn func(tier string) int
	Fn      func(r *Run)
}

var registry = map[string]*Check{}

// Register adds a check.
func Register(c *Check) { registry[c.ID] = c }

// Lookup finds a check.
func Lookup(id string) *Check { return registry[id] }

// IDs lists the registered checks.
func IDs() []string {
	var ids []string
	for id := range registry {
		ids = append(ids, id)
	}
	sort.Strings(ids)
	return ids
}

// Violation is one failing point.
type Violation struct {
	Sig      string         `json:"sig"`  // cluster signature: what kind of difference, at which construct
	Desc     string         `json:"desc"` // one line for humans
	Point    map[string]any `json:"point"`
	Expected string         `json:"expected"`
	Actual   string         `json:"actual"`
	Phase    string         `json:"phase"`
	Shard    int            `json:"shard"`     // the worker that saw it: shard Shard of Of
	Of       int            `json:"of_shards"` // (0 = set by the parent itself)
	size     int
}

// Cluster groups violations with one signature.
type Cluster struct {
	Sig   string     `json:"sig"`
	Count int64      `json:"count"`
	Min   *Violation `json:"min"`
}

// Run accumulates what one worker (or, after merging, the whole run) covered.
type Run struct {
	Prop  string `json:"prop"`
	Tier  string `json:"tier"`
	Phase string `json:"phase"`
	Seed  int64  `json:"seed"`
	Shard int    `json:"shard"`
	N     int    `json:"n"`

	C        map[string]int64    `json:"c"`
	Outcomes map[uint64]struct{} `json:"-"`
	OutList  []uint64            `json:"outcomes"`
	OutCap   bool                `json:"outcomes_capped"`
	Samples  []any               `json:"samples"`
	Clusters map[string]*Cluster `json:"clusters"`
	Abstain  map[string]int64    `json:"abstain"`
	Caps     []string            `json:"caps"`
	Bounds   map[string]any      `json:"bounds"`
	Notes    []string            `json:"notes"`
	Internal []string            `json:"internal"` // internal errors (machinery, not the library)

	deadline  time.Time
	sampleCtr int64
	curFile   string
	outFile   string
	cur       atomic.Pointer[map[string]any]
	beat      atomic.Int64
	curMap    []byte
}

// Begin notes the point about to be executed (for the hang watchdog and, through
// a memory-mapped file, for the parent when this worker process dies).
func (r *Run) Begin(p map[string]any) {
	r.cur.Store(&p)
	r.beat.Add(1)
	if r.curMap != nil {
		e, _ := p["expr"].(string)
		d, _ := p["doc"].(string)
		if e == "" {
			e, _ = p["lhs"].(string)
		}
		n := copy(r.curMap[8:curMapSize/2], e)
		m := copy(r.curMap[curMapSize/2:], d)
		binary.LittleEndian.PutUint32(r.curMap[0:], uint32(n))
		binary.LittleEndian.PutUint32(r.curMap[4:], uint32(m))
	}
}

// Beat tells the watchdog that the worker is making progress inside one point.
func (r *Run) Beat() { r.beat.Add(1) }

const curMapSize = 1 << 16

func (r *Run) mapCur(path string) {
	f, err := os.OpenFile(path, os.O_RDWR|os.O_CREATE|os.O_TRUNC, 0o644)
	if err != nil {
		return
	}
	defer f.Close()
	if f.Truncate(curMapSize) != nil {
		return
	}
	m, err := syscall.Mmap(int(f.Fd()), 0, curMapSize, syscall.PROT_READ|syscall.PROT_WRITE, syscall.MAP_SHARED)
	if err == nil {
		r.curMap = m
	}
}

func readCur(path string) map[string]any {
	b, err := os.ReadFile(path)
	if err != nil || len(b) < curMapSize {
		return nil
	}
	n := int(binary.LittleEndian.Uint32(b[0:]))
	m := int(binary.LittleEndian.Uint32(b[4:]))
	if n == 0 && m == 0 || 8+n > curMapSize/2 || curMapSize/2+m > curMapSize {
		return nil
	}
	return map[string]any{"expr": string(b[8 : 8+n]), "doc": string(b[curMapSize/2 : curMapSize/2+m])}
}

// watchdog ends the worker when one call has been running for hangLimit: the
// point is recorded as a violation ("the call does not return") and the partial
// result is written. It is a backstop; where a loop can run away the deciding
// measure is the deterministic tick budget of the instrumented build.
func (r *Run) watchdog(limit time.Duration) {
	last := r.beat.Load()
	since := time.Now()
	for {
		time.Sleep(500 * time.Millisecond)
		b := r.beat.Load()
		if b != last {
			last, since = b, time.Now()
			continue
		}
		p := r.cur.Load()
		if p == nil || time.Since(since) < limit {
			continue
		}
		r.Violate(&Violation{Sig: r.Prop + "/hang", Desc: fmt.Sprintf("call still running after %s", limit), Point: *p,
			Expected: "call returns", Actual: fmt.Sprintf("no return within %s (worker abandoned)", limit)})
		r.Cap("hang (rest of the shard not explored)")
		r.finish()
		b2, _ := json.Marshal(r)
		os.WriteFile(r.outFile+".tmp", b2, 0o644)
		os.Rename(r.outFile+".tmp", r.outFile)
		os.Exit(0)
	}
}

const outcomeCap = 60000

func newRun(prop, tier, phase string, seed int64, shard, n int) *Run {
	return &Run{Prop: prop, Tier: tier, Phase: phase, Seed: seed, Shard: shard, N: n,
		C: map[string]int64{}, Outcomes: map[uint64]struct{}{}, Clusters: map[string]*Cluster{},
		Abstain: map[string]int64{}, Bounds: map[string]any{}}
}

// Thorough reports whether the thorough tier is running.
func (r *Run) Thorough() bool { return r.Tier == "thorough" }

// Mine reports whether work item i belongs to this shard.
func (r *Run) Mine(i int) bool {
	if r.N <= 1 {
		return true
	}
	return (i+int(r.Seed%int64(r.N))+r.N)%r.N == r.Shard
}

// Add bumps a counter.
func (r *Run) Add(name string, n int64) { r.C[name] += n }

// Bound records one bound of the explored space (first shard's value wins).
func (r *Run) Bound(name string, v any) { r.Bounds[name] = v }

// Note records a free-text remark for the evidence file.
func (r *Run) Note(s string) {
	for _, n := range r.Notes {
		if n == s {
			return
		}
	}
	r.Notes = append(r.Notes, s)
}

// InternalError records a failure of the machinery itself.
func (r *Run) InternalError(s string) {
	if len(r.Internal) < 20 {
		r.Internal = append(r.Internal, s)
	}
}

// Expired reports whether the worker's deadline has passed; the first time it
// does, the cap is recorded (the run is then not exhaustive).
func (r *Run) Expired() bool {
	if r.deadline.IsZero() || time.Now().Before(r.deadline) {
		return false
	}
	r.Cap("deadline")
	return true
}

// Cap records that a cap was hit.
func (r *Run) Cap(name string) {
	for _, c := range r.Caps {
		if c == name {
			return
		}
	}
	r.Caps = append(r.Caps, name)
}

// Eval records one execution on the real code and its outcome.
func (r *Run) Eval(o Obs) {
	r.C["evaluations"]++
	if !o.Trivial() {
		r.C["nontrivial_evaluations"]++
		if len(r.Outcomes) >= outcomeCap {
			r.OutCap = true
		} else {
			r.Outcomes[HashValue(o.Val)] = struct{}{}
		}
	}
}

// Outcome records a distinct-outcome key (bounded set).
func (r *Run) Outcome(key string) {
	if len(r.Outcomes) >= outcomeCap {
		r.OutCap = true
		return
	}
	h := fnv.New64a()
	h.Write([]byte(key))
	r.Outcomes[h.Sum64()] = struct{}{}
}

// AbstainOn counts an abstention of the oracle.
func (r *Run) AbstainOn(reason string) { r.Abstain[reason]++ }

// Sample keeps a thin, deterministic selection of explored points: the first
// three and then every point whose ordinal is a power of four.
func (r *Run) Sample(mk func() any) {
	r.sampleCtr++
	n := r.sampleCtr
	if n <= 3 || (n&(n-1) == 0 && bitsEven(n)) {
		if len(r.Samples) < 24 {
			r.Samples = append(r.Samples, mk())
		}
	}
}

func bitsEven(n int64) bool {
	z := 0
	for n > 1 {
		n >>= 1
		z++
	}
	return z%2 == 0
}

// limitMemory caps the address space of a worker so that a run-away allocation
// kills the worker (an observation for the input it was running) and not the machine.
func limitMemory() {
	gib := uint64(8)
	if s := os.Getenv("VERIF_MEM_GIB"); s != "" {
		if n, err := strconv.Atoi(s); err == nil && n > 0 {
			gib = uint64(n)
		}
	}
	lim := syscall.Rlimit{Cur: gib << 30, Max: gib << 30}
	syscall.Setrlimit(syscall.RLIMIT_AS, &lim)
}

// Violate records a failing point.
func (r *Run) Violate(v *Violation) {
	if v == nil {
		return
	}
	if v.Phase == "" {
		v.Phase = r.Phase
	}
	if v.Of == 0 && r.N > 0 && r.Phase != "" {
		v.Shard, v.Of = r.Shard, r.N
	}
	b, _ := json.Marshal(v.Point)
	v.size = len(b)
	c := r.Clusters[v.Sig]
	if c == nil {
		if len(r.Clusters) >= 400 {
			r.Cap("violation-clusters")
			return
		}
		c = &Cluster{Sig: v.Sig}
		r.Clusters[v.Sig] = c
	}
	c.Count++
	if c.Min == nil || v.size < c.Min.size {
		c.Min = v
	}
}

func (r *Run) finish() {
	r.OutList = r.OutList[:0]
	for h := range r.Outcomes {
		r.OutList = append(r.OutList, h)
	}
}

func (r *Run) merge(o *Run) {
	for k, v := range o.C {
		r.C[k] += v
	}
	for _, h := range o.OutList {
		r.Outcomes[h] = struct{}{}
	}
	r.OutCap = r.OutCap || o.OutCap
	for _, s := range o.Samples {
		if len(r.Samples) < 12 {
			r.Samples = append(r.Samples, s)
		}
	}
	for sig, c := range o.Clusters {
		if c.Min != nil {
			b, _ := json.Marshal(c.Min.Point)
			c.Min.size = len(b)
		}
		m := r.Clusters[sig]
		if m == nil {
			r.Clusters[sig] = c
			continue
		}
		m.Count += c.Count
		if c.Min != nil && (m.Min == nil || c.Min.size < m.Min.size) {
			m.Min = c.Min
		}
	}
	for k, v := range o.Abstain {
		r.Abstain[k] += v
	}
	for _, c := range o.Caps {
		r.Cap(c)
	}
	for k, v := range o.Bounds {
		if _, ok := r.Bounds[k]; !ok {
			r.Bounds[k] = v
		}
	}
	for _, n := range o.Notes {
		r.Note(n)
	}
	for _, n := range o.Internal {
		r.InternalError(n)
	}
}

// ---------------------------------------------------------------------------
// worker side

// ShardMain runs one phase shard and writes its partial result.
func ShardMain(id, tier, phase string, shard, n int, out string) int {
	c := Lookup(id)
	if c == nil {
		fmt.Fprintln(os.Stderr, "jmc: unknown check", id)
		return 2
	}
	var ph *Phase
	for i := range c.Phases {
		if c.Phases[i].Name == phase {
			ph = &c.Phases[i]
		}
	}
	if ph == nil {
		fmt.Fprintln(os.Stderr, "jmc: unknown phase", phase)
		return 2
	}
	r := newRun(id, tier, phase, seed(), shard, n)
	r.deadline = time.Now().Add(budget(tier))
	r.mapCur(out + ".cur")
	limitMemory()
	r.outFile = out
	hang := 60
	if s := os.Getenv("VERIF_HANG_S"); s != "" {
		if n, err := strconv.Atoi(s); err == nil && n > 0 {
			hang = n
		}
	}
	go r.watchdog(time.Duration(hang) * time.Second)
	ph.Fn(r)
	r.cur.Store(nil)
	r.finish()
	b, err := json.Marshal(r)
	if err != nil {
		fmt.Fprintln(os.Stderr, "jmc: cannot encode partial result:", err)
		return 2
	}
	if err := os.WriteFile(out+".tmp", b, 0o644); err != nil {
		fmt.Fprintln(os.Stderr, "jmc:", err)
		return 2
	}
	os.Rename(out+".tmp", out)
	return 0
}

func seed() int64 {
	s, _ := strconv.ParseInt(os.Getenv("VERIF_SEED"), 10, 64)
	if s < 0 {
		s = -s
	}
	return s
}

func budget(tier string) time.Duration {
	if s := os.Getenv("VERIF_BUDGET_S"); s != "" {
		if n, err := strconv.Atoi(s); err == nil && n > 0 {
			return time.Duration(n) * time.Second
		}
	}
	if tier == "thorough" {
		return 45 * time.Minute
	}
	return 8 * time.Minute
}

// ---------------------------------------------------------------------------
// parent side

// Finding is one entry of known_findings.json.
type Finding struct {
	Property string         `json:"property"`
	ID       string         `json:"id"`
	What     string         `json:"what"`
	Minimal  map[string]any `json:"minimal,omitempty"`
	Match    struct {
		Sig   string `json:"sig"`             // regular expression, anchored, on the cluster signature
		Point string `json:"point,omitempty"` // optional regular expression on the JSON of the smallest point
	} `json:"match"`
}

// Findings is the committed known-findings file.
type Findings struct {
	Known []Finding `json:"known"`
	Fixed []string  `json:"fixed"`
}

func loadFindings(verif string) (*Findings, error) {
	var f Findings
	b, err := os.ReadFile(filepath.Join(verif, "known_findings.json"))
	if err != nil {
		if os.IsNotExist(err) {
			return &f, nil
		}
		return nil, err
	}
	if err := json.Unmarshal(b, &f); err != nil {
		return nil, err
	}
	return &f, nil
}

func (f *Findings) match(prop string, c *Cluster) *Finding {
	for i := range f.Known {
		k := &f.Known[i]
		if k.Property != prop {
			continue
		}
		re, err := regexp.Compile("^(?:" + k.Match.Sig + ")$")
		if err != nil || !re.MatchString(c.Sig) {
			continue
		}
		if k.Match.Point != "" && c.Min != nil {
			pb, _ := json.Marshal(c.Min.Point)
			pre, err := regexp.Compile(k.Match.Point)
			if err != nil || !pre.Match(pb) {
				continue
			}
		}
		return k
	}
	return nil
}

// ParentMain runs a whole check: all phases, sharded; merges; classifies
// violations; writes evidence; prints the verdict lines. Returns the exit code.
func ParentMain(id, tier string) int {
	start := time.Now()
	verif := envOr("VERIF", "/verif")
	work := envOr("VERIF_WORK", filepath.Join(verif, ".work"))
	c := Lookup(id)
	if c == nil {
		fmt.Fprintln(os.Stderr, "jmc: unknown check", id)
		return 2
	}
	findings, err := loadFindings(verif)
	if err != nil {
		fmt.Fprintln(os.Stderr, "jmc: known_findings.json:", err)
		return 2
	}
	total := newRun(id, tier, "", seed(), 0, 1)
	tmp := filepath.Join(work, "tmp", fmt.Sprintf("%s-%s-%d", id, tier, os.Getpid()))
	os.MkdirAll(tmp, 0o755)
	defer os.RemoveAll(tmp)

	phaseOf := map[string]*Phase{}
	for pi := range c.Phases {
		ph := &c.Phases[pi]
		phaseOf[ph.Name] = ph
		n := ph.Procs
		if ph.ProcsFn != nil {
			n = ph.ProcsFn(tier)
		}
		if n <= 0 {
			n = defaultProcs()
		}
		bin := filepath.Join(work, "bin", "jmc-"+ph.Build)
		type res struct {
			i    int
			err  error
			tail string
		}
		ch := make(chan res, n)
		sem := make(chan struct{}, defaultProcs())
		for i := 0; i < n; i++ {
			go func(i int) {
				sem <- struct{}{}
				defer func() { <-sem }()
				out := filepath.Join(tmp, fmt.Sprintf("%s-%d.json", ph.Name, i))
				cmd := exec.Command(bin, "shard", id, tier, ph.Name, strconv.Itoa(i), strconv.Itoa(n), out)
				cmd.Env = append(os.Environ(), "GOMAXPROCS=2", "GOTRACEBACK=single")
				if ph.Build == "race" {
					cmd.Env = append(os.Environ(), "GOMAXPROCS=4", "GOTRACEBACK=single", "GORACE=halt_on_error=1 exitcode=66", "VERIF_MEM_GIB=64")
				}
				var eb tailBuf
				cmd.Stderr = &eb
				cmd.Stdout = &eb
				err := cmd.Run()
				ch <- res{i, err, eb.String()}
			}(i)
		}
		for k := 0; k < n; k++ {
			rs := <-ch
			out := filepath.Join(tmp, fmt.Sprintf("%s-%d.json", ph.Name, rs.i))
			b, rerr := os.ReadFile(out)
			if rs.err != nil || rerr != nil {
				if pt := readCur(out + ".cur"); pt != nil && rerr != nil {
					sig := id + "/worker-died/" + classifyCrash(rs.tail)
					if e, _ := pt["expr"].(string); strings.HasPrefix(e, "family:") {
						sig += "/" + strings.Fields(e)[0]
					}
					v := &Violation{Sig: sig, Desc: "worker process died while executing this input: " + firstLine(rs.tail),
						Point: pt, Expected: "call returns normally", Actual: "process killed: " + trunc(rs.tail, 600), Phase: ph.Name}
					total.Violate(v)
					total.Cap("worker-died (rest of its shard not explored)")
					continue
				}
				total.InternalError(fmt.Sprintf("phase %s shard %d failed: %v: %s", ph.Name, rs.i, rs.err, trunc(rs.tail, 1500)))
				continue
			}
			var part Run
			if err := json.Unmarshal(b, &part); err != nil {
				total.InternalError(fmt.Sprintf("phase %s shard %d: bad partial result: %v", ph.Name, rs.i, err))
				continue
			}
			total.merge(&part)
		}
	}

	// classify clusters
	var sigs []string
	for s := range total.Clusters {
		sigs = append(sigs, s)
	}
	sort.Slice(sigs, func(i, j int) bool {
		a, b := total.Clusters[sigs[i]], total.Clusters[sigs[j]]
		if a.Min.size != b.Min.size {
			return a.Min.size < b.Min.size
		}
		return sigs[i] < sigs[j]
	})
	knownMatched := map[string]int64{}
	var unrepro []*Cluster // seen by a worker, not reproduced from the point alone in a fresh process
	var violLines []string
	var violSamples []any
	nviol := 0
	outDir := envOr("VERIF_OUT", verif) // evidence and replay files (runs against deliberately changed trees write elsewhere)
	os.MkdirAll(filepath.Join(outDir, "replays"), 0o755)
	for _, s := range sigs {
		cl := total.Clusters[s]
		if k := findings.match(id, cl); k != nil {
			knownMatched[k.ID] += cl.Count
			continue
		}
		// reproducibility gate: re-judge the smallest member in fresh workers
		ph := phaseOf[cl.Min.Phase]
		repro := 0
		const tries = 3
		if c.Judge != nil && ph != nil && !strings.Contains(cl.Sig, "/worker-died/") && nviol < 25 {
			for t := 0; t < tries; t++ {
				if rejudge(work, ph.Build, id, tmp, cl.Min) {
					repro++
				}
			}
			if repro == 0 {
				unrepro = append(unrepro, cl)
				continue
			}
			if repro < tries {
				total.Note(fmt.Sprintf("violation %s reproduced %d/%d times", cl.Sig, repro, tries))
			}
		}
		nviol++
		h := fnv.New32a()
		h.Write([]byte(cl.Sig))
		path := filepath.Join(outDir, "replays", fmt.Sprintf("%s-%08x.json", id, h.Sum32()))
		rb, _ := json.MarshalIndent(map[string]any{"property": id, "tier": tier, "sig": cl.Sig, "count": cl.Count, "desc": cl.Min.Desc,
			"phase": cl.Min.Phase, "point": cl.Min.Point, "expected": cl.Min.Expected, "actual": cl.Min.Actual,
			"go_test": goTest(id, cl.Min)}, "", " ")
		os.WriteFile(path, rb, 0o644)
		if len(violLines) < 20 {
			violLines = append(violLines, fmt.Sprintf("VIOLATION property=%s replay=%s", id, path))
			fmt.Printf("  [%s] x%d %s\n      expected: %s\n      actual:   %s\n", cl.Sig, cl.Count, cl.Min.Desc, trunc(cl.Min.Expected, 300), trunc(cl.Min.Actual, 300))
		}
		if len(violSamples) < 10 {
			violSamples = append(violSamples, map[string]any{"violation": cl.Sig, "count": cl.Count, "point": cl.Min.Point, "expected": trunc(cl.Min.Expected, 300), "actual": trunc(cl.Min.Actual, 300)})
		}
	}
	// A difference that a worker saw but that a fresh process does not show for the same input is either an error of
	// the machinery or a library whose answer depends on what the process evaluated before. The worker's execution is
	// deterministic, so the second case is decided by running the very same shard again: if it goes wrong again, the
	// history is the cause, and the shard is the replay.
	if len(unrepro) > 0 {
		w := unrepro[0].Min
		ph := phaseOf[w.Phase]
		confirmed := int64(0)
		if ph != nil && w.Of > 0 {
			confirmed = rerunShard(work, ph.Build, id, tier, w.Phase, w.Shard, w.Of, tmp)
		}
		if confirmed > 0 {
			var n int64
			for _, cl := range unrepro {
				n += cl.Count
			}
			sig := id + "/outcome-depends-on-process-history/" + w.Phase
			path := filepath.Join(outDir, "replays", fmt.Sprintf("%s-history-%s-%d.json", id, w.Phase, w.Shard))
			desc := fmt.Sprintf("%d differences (%d kinds) were seen by worker %d/%d of phase %s and again when that worker was re-run (%d), but not one of them shows when its input is evaluated alone in a fresh process; first witness: %s",
				n, len(unrepro), w.Shard, w.Of, w.Phase, confirmed, w.Desc)
			rb, _ := json.MarshalIndent(map[string]any{"property": id, "tier": tier, "sig": sig, "count": n, "desc": desc, "kind": "shard",
				"phase": w.Phase, "shard": w.Shard, "of_shards": w.Of, "point": w.Point, "expected": w.Expected, "actual": w.Actual}, "", " ")
			os.WriteFile(path, rb, 0o644)
			nviol++
			violLines = append(violLines, fmt.Sprintf("VIOLATION property=%s replay=%s", id, path))
			fmt.Printf("  [%s] x%d %s\n      expected: %s\n      actual:   %s\n", sig, n, desc, trunc(w.Expected, 300), trunc(w.Actual, 300))
			violSamples = append(violSamples, map[string]any{"violation": sig, "count": n, "point": w.Point, "expected": trunc(w.Expected, 300), "actual": trunc(w.Actual, 300)})
		} else {
			for _, cl := range unrepro {
				total.InternalError("violation not reproducible on re-execution (dropped): " + cl.Sig + " " + cl.Min.Desc)
			}
		}
	}
	var ids []string
	for k := range knownMatched {
		ids = append(ids, k)
	}
	sort.Strings(ids)
	for _, kid := range ids {
		for _, k := range findings.Known {
			if k.ID == kid && k.Property == id {
				fmt.Printf("KNOWN-FINDING: property=%s %s: %s (matched %d points)\n", id, k.ID, k.What, knownMatched[kid])
			}
		}
	}

	// evidence
	wall := time.Since(start).Seconds()
	exhaustive := len(total.Caps) == 0 && len(total.Internal) == 0
	samples := append([]any{}, total.Samples...)
	samples = append(samples, violSamples...)
	if len(samples) == 0 {
		samples = append(samples, "no sample recorded")
	}
	evals := total.C["evaluations"]
	states := total.C["states"]
	if states == 0 {
		states = evals
	}
	transitions := total.C["transitions"]
	if transitions == 0 {
		transitions = evals
	}
	traces := total.C["traces_validated_against_impl"]
	if traces == 0 {
		traces = evals
	}
	cov := map[string]any{
		"evaluations":                        evals,
		"distinct_nontrivial":                len(total.Outcomes),
		"distinct_nontrivial_is_lower_bound": total.OutCap,
		"nontrivial_evaluations":             total.C["nontrivial_evaluations"],
		"rule":                               c.Rule,
		"samples":                            samples,
		"states":                             states,
		"transitions":                        transitions,
		"traces_validated_against_impl":      traces,
		"exhaustive":                         exhaustive,
		"caps_hit":                           total.Caps,
		"bounds":                             total.Bounds,
		"counters":                           total.C,
		"abstentions_by_reason":              total.Abstain,
		"known_findings_matched":             knownMatched,
		"notes":                              total.Notes,
		"internal_errors":                    total.Internal,
		"violation_clusters":                 len(total.Clusters),
	}
	if d, ok := total.C["oracle_determinate"]; ok && evals > 0 {
		cov["determinate_fraction"] = float64(d) / float64(d+total.C["oracle_abstained"])
	}
	ev := map[string]any{
		"property_id": id, "tier": tier, "seed": total.Seed, "level": "model_checking",
		"coverage": cov, "assumptions": c.Assumptions, "wall_s": wall, "violations": nviol,
	}
	eb, _ := json.MarshalIndent(ev, "", " ")
	os.MkdirAll(filepath.Join(outDir, "evidence"), 0o755)
	if err := os.WriteFile(filepath.Join(outDir, "evidence", id+".json"), eb, 0o644); err != nil {
		fmt.Fprintln(os.Stderr, "jmc: cannot write evidence:", err)
		return 2
	}
	fmt.Printf("%s %s: evaluations=%d nontrivial_evals=%d distinct_nontrivial=%d states=%d transitions=%d clusters=%d violations=%d known=%d exhaustive=%v caps=%v wall=%.1fs\n",
		id, tier, evals, total.C["nontrivial_evaluations"], len(total.Outcomes), states, transitions, len(total.Clusters), nviol, len(knownMatched), exhaustive, total.Caps, wall)
	for _, l := range violLines {
		fmt.Println(l)
	}
	if nviol > 0 {
		return 1
	}
	if len(total.Internal) > 0 {
		for _, e := range total.Internal {
			fmt.Fprintln(os.Stderr, "INTERNAL-ERROR:", e)
		}
		return 2
	}
	return 0
}

// rerunShard runs one worker again and returns the number of violations it reports.
func rerunShard(work, build, id, tier, phase string, shard, of int, tmp string) int64 {
	out := filepath.Join(tmp, fmt.Sprintf("rerun-%s-%d.json", phase, shard))
	os.Remove(out)
	cmd := exec.Command(filepath.Join(work, "bin", "jmc-"+build), "shard", id, tier, phase, strconv.Itoa(shard), strconv.Itoa(of), out)
	cmd.Env = append(os.Environ(), "GOMAXPROCS=2", "GOTRACEBACK=single")
	cmd.Run()
	b, err := os.ReadFile(out)
	if err != nil {
		return 0
	}
	var part Run
	if json.Unmarshal(b, &part) != nil {
		return 0
	}
	var n int64
	for _, cl := range part.Clusters {
		n += cl.Count
	}
	return n
}

func rejudge(work, build, id, tmp string, v *Violation) bool {
	f := filepath.Join(tmp, "rejudge.json")
	b, _ := json.Marshal(map[string]any{"property": id, "phase": v.Phase, "point": v.Point})
	os.WriteFile(f, b, 0o644)
	// a judge that does not come back within five minutes is killed (and counts as not reproduced)
	ctx, cancel := context.WithTimeout(context.Background(), 5*time.Minute)
	defer cancel()
	cmd := exec.CommandContext(ctx, filepath.Join(work, "bin", "jmc-"+build), "judge", f)
	cmd.Env = append(os.Environ(), "GOMAXPROCS=2")
	out, _ := cmd.CombinedOutput()
	return strings.Contains(string(out), "JUDGE: violation")
}

// JudgeMain re-judges one recorded point in this process.
func JudgeMain(file string) int {
	limitMemory()
	b, err := os.ReadFile(file)
	if err != nil {
		fmt.Fprintln(os.Stderr, "jmc:", err)
		return 2
	}
	var rec struct {
		Property string         `json:"property"`
		Phase    string         `json:"phase"`
		Point    map[string]any `json:"point"`
	}
	if err := json.Unmarshal(b, &rec); err != nil {
		fmt.Fprintln(os.Stderr, "jmc:", err)
		return 2
	}
	c := Lookup(rec.Property)
	if c == nil || c.Judge == nil {
		fmt.Println("JUDGE: no judge for", rec.Property)
		return 2
	}
	r := newRun(rec.Property, "quick", rec.Phase, 0, 0, 1)
	v := c.Judge(r, rec.Phase, rec.Point)
	if v == nil {
		fmt.Println("JUDGE: holds")
		return 0
	}
	fmt.Printf("JUDGE: violation [%s] %s\n  expected: %s\n  actual:   %s\n", v.Sig, v.Desc, v.Expected, v.Actual)
	return 1
}

// ReplayMain re-runs a replay file; the caller (bin/check) has rebuilt the binaries.
func ReplayMain(file string) int {
	verif := envOr("VERIF", "/verif")
	work := envOr("VERIF_WORK", filepath.Join(verif, ".work"))
	b, err := os.ReadFile(file)
	if err != nil {
		fmt.Fprintln(os.Stderr, "jmc:", err)
		return 2
	}
	var rec struct {
		Property string `json:"property"`
		Phase    string `json:"phase"`
		Kind     string `json:"kind"`
		Tier     string `json:"tier"`
		Shard    int    `json:"shard"`
		Of       int    `json:"of_shards"`
	}
	json.Unmarshal(b, &rec)
	c := Lookup(rec.Property)
	if c == nil {
		fmt.Fprintln(os.Stderr, "jmc: unknown property in replay file")
		return 2
	}
	build := "pristine"
	for _, ph := range c.Phases {
		if ph.Name == rec.Phase {
			build = ph.Build
		}
	}
	if rec.Kind == "shard" {
		// the history is the replay: run the worker again
		tmp, _ := os.MkdirTemp(filepath.Join(work, "tmp"), "replay-")
		defer os.RemoveAll(tmp)
		n := rerunShard(work, build, rec.Property, rec.Tier, rec.Phase, rec.Shard, rec.Of, tmp)
		fmt.Printf("worker %d/%d of phase %s re-run: %d violations\n", rec.Shard, rec.Of, rec.Phase, n)
		if n > 0 {
			fmt.Printf("VIOLATION property=%s replay=%s\n", rec.Property, file)
			return 1
		}
		return 0
	}
	cmd := exec.Command(filepath.Join(work, "bin", "jmc-"+build), "judge", file)
	out, _ := cmd.CombinedOutput()
	fmt.Print(string(out))
	if strings.Contains(string(out), "JUDGE: violation") {
		fmt.Printf("VIOLATION property=%s replay=%s\n", rec.Property, file)
		return 1
	}
	if strings.Contains(string(out), "JUDGE: holds") {
		return 0
	}
	return 2
}

func goTest(id string, v *Violation) string {
	expr, _ := v.Point["expr"].(string)
	doc, _ := v.Point["doc"].(string)
	if expr == "" {
		return ""
	}
	return fmt.Sprintf("func TestReplay_%s(t *testing.T) {\n\tvar doc any\n\td := json.NewDecoder(strings.NewReader(%q)); d.UseNumber(); d.Decode(&doc)\n\tgot, err := jmespath.Search(%q, doc)\n\tt.Logf(\"got %%v err %%v; expected %s\", got, err)\n}\n", id, doc, expr, strings.ReplaceAll(trunc(v.Expected, 120), "\"", "'"))
}

func classifyCrash(tail string) string {
	switch {
	case strings.Contains(tail, "stack overflow") || strings.Contains(tail, "goroutine stack exceeds"):
		return "stack-overflow"
	case strings.Contains(tail, "out of memory") || strings.Contains(tail, "cannot allocate"):
		return "out-of-memory"
	case strings.Contains(tail, "signal: killed"):
		return "killed"
	case strings.Contains(tail, "DATA RACE"):
		return "data-race"
	case strings.Contains(tail, "fatal error"):
		return "fatal-error"
	case strings.Contains(tail, "panic:"):
		return "panic"
	}
	return "other"
}

func firstLine(s string) string {
	for _, l := range strings.Split(s, "\n") {
		if strings.Contains(l, "fatal error") || strings.Contains(l, "panic:") {
			return strings.TrimSpace(l)
		}
	}
	if i := strings.IndexByte(s, '\n'); i >= 0 {
		return s[:i]
	}
	return s
}

func defaultProcs() int {
	if s := os.Getenv("VERIF_PROCS"); s != "" {
		if n, err := strconv.Atoi(s); err == nil && n > 0 {
			return n
		}
	}
	return 16
}

func envOr(k, d string) string {
	if v := os.Getenv(k); v != "" {
		return v
	}
	return d
}

// tailBuf keeps the head and the tail of a stream.
type tailBuf struct {
	mu   sync.Mutex
	head []byte
	tail []byte
}

func (t *tailBuf) Write(p []byte) (int, error) {
	t.mu.Lock()
	defer t.mu.Unlock()
	if len(t.head) < 2000 {
		k := 2000 - len(t.head)
		if k > len(p) {
			k = len(p)
		}
		t.head = append(t.head, p[:k]...)
		p2 := p[k:]
		t.tail = append(t.tail, p2...)
	} else {
		t.tail = append(t.tail, p...)
	}
	if len(t.tail) > 4000 {
		t.tail = t.tail[len(t.tail)-4000:]
	}
	return len(p), nil
}

func (t *tailBuf) String() string {
	t.mu.Lock()
	defer t.mu.Unlock()
	if len(t.tail) == 0 {
		return string(t.head)
	}
	return string(t.head) + "\n...\n" + string(t.tail)
}

// Commands are extra sub-commands registered by other packages.
var Commands = map[string]func(args []string) int{}
