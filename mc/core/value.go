// Package core holds what every check shares: the normalised value model,
// observations of API calls, the sharded runner, evidence and findings plumbing.
package core

import (
	"encoding/json"
	"fmt"
	"math"
	"math/big"
	"reflect"
	"sort"
	"strconv"
	"strings"
	"unicode/utf8"

	"github.com/woodsbury/decimal128"
)

// Num is a number by exact value. Special is "" for finite values, else
// "NaN", "+Inf" or "-Inf". Bad marks a carrier whose text is not a number.
type Num struct {
	R       *big.Rat
	Special string
	Bad     string
}

// Foreign is any Go value that is not part of the JSON data model.
type Foreign struct{ Type string }

// Norm converts a Go value as produced or consumed by the library into the
// normalised model: nil, bool, string, *Num, []any, map[string]any, Foreign.
func Norm(v any) any {
	switch x := v.(type) {
	case nil:
		return nil
	case bool:
		return x
	case string:
		return x
	case []any:
		if x == nil {
			return Foreign{"nil []any"}
		}
		out := make([]any, len(x))
		for i, e := range x {
			out[i] = Norm(e)
		}
		return out
	case map[string]any:
		if x == nil {
			return Foreign{"nil map[string]any"}
		}
		out := make(map[string]any, len(x))
		for k, e := range x {
			out[k] = Norm(e)
		}
		return out
	case *Num:
		return x
	case Foreign:
		return x
	}
	if n, ok := NumOf(v); ok {
		return n
	}
	return Foreign{fmt.Sprintf("%T", v)}
}

// NumOf converts any supported numeric carrier to its exact value.
func NumOf(v any) (*Num, bool) {
	switch x := v.(type) {
	case json.Number:
		r, ok := ParseDecimal(string(x))
		if !ok {
			return &Num{Bad: string(x)}, true
		}
		return &Num{R: r}, true
	case decimal128.Decimal:
		if x.IsNaN() {
			return &Num{Special: "NaN"}, true
		}
		if x.IsInf(1) {
			return &Num{Special: "+Inf"}, true
		}
		if x.IsInf(-1) {
			return &Num{Special: "-Inf"}, true
		}
		r, ok := ParseDecimal(x.String())
		if !ok {
			return &Num{Bad: x.String()}, true
		}
		return &Num{R: r}, true
	case float64:
		return floatNum(x), true
	case float32:
		return floatNum(float64(x)), true
	case int:
		return &Num{R: new(big.Rat).SetInt64(int64(x))}, true
	case int8:
		return &Num{R: new(big.Rat).SetInt64(int64(x))}, true
	case int16:
		return &Num{R: new(big.Rat).SetInt64(int64(x))}, true
	case int32:
		return &Num{R: new(big.Rat).SetInt64(int64(x))}, true
	case int64:
		return &Num{R: new(big.Rat).SetInt64(x)}, true
	case uint:
		return &Num{R: new(big.Rat).SetInt(new(big.Int).SetUint64(uint64(x)))}, true
	case uint8:
		return &Num{R: new(big.Rat).SetInt64(int64(x))}, true
	case uint16:
		return &Num{R: new(big.Rat).SetInt64(int64(x))}, true
	case uint32:
		return &Num{R: new(big.Rat).SetInt64(int64(x))}, true
	case uint64:
		return &Num{R: new(big.Rat).SetInt(new(big.Int).SetUint64(x))}, true
	}
	return nil, false
}

func floatNum(f float64) *Num {
	switch {
	case math.IsNaN(f):
		return &Num{Special: "NaN"}
	case math.IsInf(f, 1):
		return &Num{Special: "+Inf"}
	case math.IsInf(f, -1):
		return &Num{Special: "-Inf"}
	}
	r := new(big.Rat)
	r.SetFloat64(f)
	return &Num{R: r}
}

// ParseDecimal parses decimal text of the form [-+]digits[.digits][(e|E)[-+]digits]
// exactly. Exponents beyond +-100000 are refused (ok=false) to keep big.Rat small.
func ParseDecimal(s string) (*big.Rat, bool) {
	if s == "" {
		return nil, false
	}
	i := 0
	neg := false
	if s[i] == '-' || s[i] == '+' {
		neg = s[i] == '-'
		i++
	}
	mant := new(big.Int)
	digits := 0
	scale := 0
	seenDot := false
	for ; i < len(s); i++ {
		c := s[i]
		if c >= '0' && c <= '9' {
			mant.Mul(mant, big.NewInt(10))
			mant.Add(mant, big.NewInt(int64(c-'0')))
			digits++
			if seenDot {
				scale++
			}
			continue
		}
		if c == '.' && !seenDot {
			seenDot = true
			continue
		}
		break
	}
	if digits == 0 {
		return nil, false
	}
	exp := 0
	if i < len(s) {
		if s[i] != 'e' && s[i] != 'E' {
			return nil, false
		}
		e, err := strconv.Atoi(s[i+1:])
		if err != nil || e > 100000 || e < -100000 {
			return nil, false
		}
		exp = e
	}
	exp -= scale
	r := new(big.Rat).SetInt(mant)
	if exp > 0 {
		r.Mul(r, new(big.Rat).SetInt(new(big.Int).Exp(big.NewInt(10), big.NewInt(int64(exp)), nil)))
	} else if exp < 0 {
		r.Quo(r, new(big.Rat).SetInt(new(big.Int).Exp(big.NewInt(10), big.NewInt(int64(-exp)), nil)))
	}
	if neg {
		r.Neg(r)
	}
	return r, true
}

// Canon renders a normalised value canonically: equal values have equal text.
func Canon(v any) string {
	var b strings.Builder
	canon(&b, v)
	return b.String()
}

func canon(b *strings.Builder, v any) {
	switch x := v.(type) {
	case nil:
		b.WriteString("null")
	case bool:
		if x {
			b.WriteString("true")
		} else {
			b.WriteString("false")
		}
	case string:
		b.WriteString(strconv.Quote(x))
	case *Num:
		switch {
		case x.Bad != "":
			b.WriteString("#bad(" + strconv.Quote(x.Bad) + ")")
		case x.Special != "":
			b.WriteString("#" + x.Special)
		default:
			b.WriteString("#" + x.R.RatString())
		}
	case []any:
		b.WriteByte('[')
		for i, e := range x {
			if i > 0 {
				b.WriteByte(',')
			}
			canon(b, e)
		}
		b.WriteByte(']')
	case map[string]any:
		keys := make([]string, 0, len(x))
		for k := range x {
			keys = append(keys, k)
		}
		sort.Strings(keys)
		b.WriteByte('{')
		for i, k := range keys {
			if i > 0 {
				b.WriteByte(',')
			}
			b.WriteString(strconv.Quote(k))
			b.WriteByte(':')
			canon(b, x[k])
		}
		b.WriteByte('}')
	case Foreign:
		b.WriteString("<" + x.Type + ">")
	default:
		b.WriteString(fmt.Sprintf("<?%T>", v))
	}
}

// Equal is deep equality of normalised values (numbers by exact value).
func Equal(a, b any) bool { return Canon(a) == Canon(b) }

// HasForeign reports whether a normalised value contains a non-JSON part or a
// special/bad number.
func HasForeign(v any) bool {
	switch x := v.(type) {
	case Foreign:
		return true
	case *Num:
		return x.Bad != "" || x.Special != ""
	case []any:
		for _, e := range x {
			if HasForeign(e) {
				return true
			}
		}
	case map[string]any:
		for _, e := range x {
			if HasForeign(e) {
				return true
			}
		}
	}
	return false
}

// ValidUTF8 reports whether every string (and key) in a raw value is valid UTF-8.
func ValidUTF8(v any) bool {
	switch x := v.(type) {
	case string:
		return utf8.ValidString(x)
	case []any:
		for _, e := range x {
			if !ValidUTF8(e) {
				return false
			}
		}
	case map[string]any:
		for k, e := range x {
			if !utf8.ValidString(k) || !ValidUTF8(e) {
				return false
			}
		}
	}
	return true
}

// Skeleton renders the Go dynamic types of a raw value.
func Skeleton(v any) string {
	switch x := v.(type) {
	case nil:
		return "nil"
	case []any:
		if x == nil {
			return "nil[]any"
		}
		parts := make([]string, len(x))
		for i, e := range x {
			parts[i] = Skeleton(e)
		}
		return "[" + strings.Join(parts, ",") + "]"
	case map[string]any:
		if x == nil {
			return "nilmap"
		}
		keys := make([]string, 0, len(x))
		for k := range x {
			keys = append(keys, k)
		}
		sort.Strings(keys)
		parts := make([]string, len(keys))
		for i, k := range keys {
			parts[i] = k + ":" + Skeleton(x[k])
		}
		return "{" + strings.Join(parts, ",") + "}"
	}
	return reflect.TypeOf(v).String()
}

// JSONDoc decodes JSON text the way the library's tests do (UseNumber).
func JSONDoc(text string) any {
	d := json.NewDecoder(strings.NewReader(text))
	d.UseNumber()
	var v any
	if err := d.Decode(&v); err != nil {
		panic("core.JSONDoc: " + err.Error() + " in " + text)
	}
	return v
}

// ToJSONText renders a normalised or raw JSON-model value as JSON text
// (numbers by their json.Number text when available).
func ToJSONText(v any) string {
	b, err := json.Marshal(v)
	if err != nil {
		return fmt.Sprintf("<unmarshalable %T: %v>", v, err)
	}
	return string(b)
}

// DeepCopy copies a raw JSON-model value ([]any, map[string]any recursively).
func DeepCopy(v any) any {
	switch x := v.(type) {
	case []any:
		if x == nil {
			return x
		}
		out := make([]any, len(x))
		for i, e := range x {
			out[i] = DeepCopy(e)
		}
		return out
	case map[string]any:
		if x == nil {
			return x
		}
		out := make(map[string]any, len(x))
		for k, e := range x {
			out[k] = DeepCopy(e)
		}
		return out
	}
	return v
}

// EqualFast is Equal without building canonical text.
func EqualFast(a, b any) bool {
	switch x := a.(type) {
	case nil:
		return b == nil
	case bool:
		y, ok := b.(bool)
		return ok && x == y
	case string:
		y, ok := b.(string)
		return ok && x == y
	case *Num:
		y, ok := b.(*Num)
		if !ok {
			return false
		}
		if x.Bad != "" || y.Bad != "" || x.Special != "" || y.Special != "" {
			return x.Bad == y.Bad && x.Special == y.Special
		}
		return x.R.Cmp(y.R) == 0
	case []any:
		y, ok := b.([]any)
		if !ok || len(x) != len(y) {
			return false
		}
		for i := range x {
			if !EqualFast(x[i], y[i]) {
				return false
			}
		}
		return true
	case map[string]any:
		y, ok := b.(map[string]any)
		if !ok || len(x) != len(y) {
			return false
		}
		for k, xv := range x {
			yv, has := y[k]
			if !has || !EqualFast(xv, yv) {
				return false
			}
		}
		return true
	case Foreign:
		y, ok := b.(Foreign)
		return ok && x == y
	}
	return false
}

const (
	fnvOff   = 14695981039346656037
	fnvPrime = 1099511628211
)

func mix(h uint64, s string) uint64 {
	for i := 0; i < len(s); i++ {
		h = (h ^ uint64(s[i])) * fnvPrime
	}
	return h
}

// HashValue hashes a normalised value (equal values have equal hashes).
func HashValue(v any) uint64 { return hashValue(fnvOff, v) }

func hashValue(h uint64, v any) uint64 {
	switch x := v.(type) {
	case nil:
		return mix(h, "n")
	case bool:
		if x {
			return mix(h, "t")
		}
		return mix(h, "f")
	case string:
		return mix(mix(h, "s"), x) * fnvPrime
	case *Num:
		if x.R != nil && x.Bad == "" && x.Special == "" {
			if x.R.IsInt() && x.R.Num().IsInt64() {
				n := uint64(x.R.Num().Int64())
				h = mix(h, "#")
				for i := 0; i < 8; i++ {
					h = (h ^ (n & 0xff)) * fnvPrime
					n >>= 8
				}
				return h
			}
			return mix(mix(h, "#r"), x.R.RatString())
		}
		return mix(mix(h, "#x"), x.Bad+x.Special)
	case []any:
		h = mix(h, "[")
		for _, e := range x {
			h = hashValue(h, e)
		}
		return mix(h, "]")
	case map[string]any:
		// order-independent combination
		var acc uint64
		for k, e := range x {
			acc += hashValue(mix(fnvOff, k), e)
		}
		return mix(h, "{") ^ acc*fnvPrime
	case Foreign:
		return mix(mix(h, "<"), x.Type)
	}
	return mix(h, "?")
}
