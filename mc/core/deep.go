package core

import (
	"fmt"
	"reflect"
	"sort"
	"strconv"
	"strings"
	"unsafe"

	"github.com/woodsbury/jmespath/internal/verifrt"
)

// Snapshot renders a raw JSON-model value completely, including the unused
// capacity of every []any (elements between len and cap), so that a write to a
// slice's hidden tail is visible.
func Snapshot(v any) string {
	var b strings.Builder
	snapshot(&b, v)
	return b.String()
}

func snapshot(b *strings.Builder, v any) {
	switch x := v.(type) {
	case []any:
		if x == nil {
			b.WriteString("nil[]")
			return
		}
		full := x[:cap(x)]
		fmt.Fprintf(b, "[len=%d cap=%d:", len(x), cap(x))
		for i, e := range full {
			if i > 0 {
				b.WriteByte(',')
			}
			snapshot(b, e)
		}
		b.WriteByte(']')
	case map[string]any:
		if x == nil {
			b.WriteString("nilmap")
			return
		}
		keys := make([]string, 0, len(x))
		for k := range x {
			keys = append(keys, k)
		}
		sort.Strings(keys)
		b.WriteByte('{')
		for i, k := range keys {
			if i > 0 {
				b.WriteByte(',')
			}
			b.WriteString(strconv.Quote(k))
			b.WriteByte(':')
			snapshot(b, x[k])
		}
		b.WriteByte('}')
	default:
		fmt.Fprintf(b, "%T(%v)", v, v)
	}
}

// DeepHash renders any Go value structurally through reflection (unexported
// fields included, slices up to their capacity, maps in key order, pointers
// followed with cycle detection). It is used to detect writes to the AST behind
// a compiled expression and to package-level variables.
func DeepHash(v any) string {
	var b strings.Builder
	deepHash(&b, reflect.ValueOf(v), map[uintptr]bool{}, 0)
	return b.String()
}

func deepHash(b *strings.Builder, v reflect.Value, seen map[uintptr]bool, depth int) {
	if !v.IsValid() {
		b.WriteString("<invalid>")
		return
	}
	if depth > 200 {
		b.WriteString("<deep>")
		return
	}
	switch v.Kind() {
	case reflect.Ptr:
		if v.IsNil() {
			b.WriteString("nilptr")
			return
		}
		p := v.Pointer()
		if seen[p] {
			b.WriteString("<cycle>")
			return
		}
		seen[p] = true
		b.WriteString("&")
		deepHash(b, v.Elem(), seen, depth+1)
		delete(seen, p)
	case reflect.Interface:
		if v.IsNil() {
			b.WriteString("niliface")
			return
		}
		b.WriteString(v.Elem().Type().String())
		b.WriteString(":")
		deepHash(b, v.Elem(), seen, depth+1)
	case reflect.Struct:
		b.WriteString(v.Type().String())
		b.WriteString("{")
		for i := 0; i < v.NumField(); i++ {
			b.WriteString(v.Type().Field(i).Name)
			b.WriteString("=")
			deepHash(b, v.Field(i), seen, depth+1)
			b.WriteString(";")
		}
		b.WriteString("}")
	case reflect.Slice:
		if v.IsNil() {
			b.WriteString("nilslice")
			return
		}
		fmt.Fprintf(b, "[len=%d cap=%d:", v.Len(), v.Cap())
		full := v
		if v.Cap() > v.Len() {
			full = v.Slice(0, v.Cap())
		}
		for i := 0; i < full.Len(); i++ {
			deepHash(b, full.Index(i), seen, depth+1)
			b.WriteString(",")
		}
		b.WriteString("]")
	case reflect.Array:
		b.WriteString("[")
		for i := 0; i < v.Len(); i++ {
			deepHash(b, v.Index(i), seen, depth+1)
			b.WriteString(",")
		}
		b.WriteString("]")
	case reflect.Map:
		if v.IsNil() {
			b.WriteString("nilmap")
			return
		}
		keys := v.MapKeys()
		ks := make([]string, len(keys))
		byKey := map[string]reflect.Value{}
		for i, k := range keys {
			var kb strings.Builder
			deepHash(&kb, k, seen, depth+1)
			ks[i] = kb.String()
			byKey[ks[i]] = k
		}
		sort.Strings(ks)
		b.WriteString("map{")
		for _, k := range ks {
			b.WriteString(k)
			b.WriteString("=>")
			deepHash(b, v.MapIndex(byKey[k]), seen, depth+1)
			b.WriteString(";")
		}
		b.WriteString("}")
	case reflect.String:
		b.WriteString(strconv.Quote(v.String()))
	case reflect.Bool:
		b.WriteString(strconv.FormatBool(v.Bool()))
	case reflect.Int, reflect.Int8, reflect.Int16, reflect.Int32, reflect.Int64:
		b.WriteString(strconv.FormatInt(v.Int(), 10))
	case reflect.Uint, reflect.Uint8, reflect.Uint16, reflect.Uint32, reflect.Uint64, reflect.Uintptr:
		b.WriteString(strconv.FormatUint(v.Uint(), 10))
	case reflect.Float32, reflect.Float64:
		b.WriteString(strconv.FormatFloat(v.Float(), 'g', -1, 64))
	case reflect.Func, reflect.Chan, reflect.UnsafePointer:
		if v.IsNil() {
			b.WriteString("nil" + v.Kind().String())
		} else {
			fmt.Fprintf(b, "%s@%x", v.Kind(), v.Pointer())
		}
	default:
		fmt.Fprintf(b, "<%s>", v.Kind())
	}
}

// ---------------------------------------------------------------------------
// Saving and restoring package-level state (for explorations that start every
// execution from the same state although the library keeps caches or pools).

// SavedGlobals is a deep copy of every registered package-level variable.
type SavedGlobals struct {
	vals []reflect.Value // one deep copy per verifrt.Globals entry
}

// SaveGlobals copies the current value of every registered package-level variable.
func SaveGlobals() *SavedGlobals {
	s := &SavedGlobals{}
	for _, g := range verifrt.Globals {
		v := reflect.ValueOf(g.Ptr).Elem()
		s.vals = append(s.vals, cloneValue(v, map[unsafe.Pointer]reflect.Value{}))
	}
	return s
}

// Restore puts (fresh deep copies of) the saved values back.
func (s *SavedGlobals) Restore() {
	for i, g := range verifrt.Globals {
		dst := reflect.ValueOf(g.Ptr).Elem()
		dst.Set(cloneValue(s.vals[i], map[unsafe.Pointer]reflect.Value{}))
	}
}

// writable returns v without the read-only flag of unexported struct fields.
func writable(v reflect.Value) reflect.Value {
	if v.CanSet() || !v.CanAddr() {
		return v
	}
	return reflect.NewAt(v.Type(), unsafe.Pointer(v.UnsafeAddr())).Elem()
}

// cloneValue deep-copies v; functions, channels and unsafe pointers are shared, cycles are preserved.
func cloneValue(v reflect.Value, seen map[unsafe.Pointer]reflect.Value) reflect.Value {
	if !v.IsValid() {
		return v
	}
	out := reflect.New(v.Type()).Elem()
	src := v
	if v.CanAddr() {
		src = writable(v)
	} else if !v.CanInterface() {
		panic("core: cloneValue reached a read-only value (every field must be taken through writable)")
	}
	switch v.Kind() {
	case reflect.Ptr:
		if src.IsNil() {
			return out
		}
		p := src.UnsafePointer()
		if c, ok := seen[p]; ok {
			return c
		}
		np := reflect.New(v.Type().Elem())
		seen[p] = np
		np.Elem().Set(cloneValue(src.Elem(), seen))
		out.Set(np)
	case reflect.Interface:
		if src.IsNil() {
			return out
		}
		out.Set(cloneValue(src.Elem(), seen))
	case reflect.Slice:
		if src.IsNil() {
			return out
		}
		n := reflect.MakeSlice(v.Type(), src.Len(), src.Cap())
		for i := 0; i < src.Len(); i++ {
			n.Index(i).Set(cloneValue(src.Index(i), seen))
		}
		out.Set(n)
	case reflect.Array:
		for i := 0; i < src.Len(); i++ {
			out.Index(i).Set(cloneValue(src.Index(i), seen))
		}
	case reflect.Map:
		if src.IsNil() {
			return out
		}
		n := reflect.MakeMapWithSize(v.Type(), src.Len())
		it := src.MapRange()
		for it.Next() {
			n.SetMapIndex(cloneValue(it.Key(), seen), cloneValue(it.Value(), seen))
		}
		out.Set(n)
	case reflect.Struct:
		// copy everything first (functions, channels, unexported scalars), then deep-copy the fields
		out.Set(src)
		for i := 0; i < src.NumField(); i++ {
			f := src.Field(i)
			switch f.Kind() {
			case reflect.Ptr, reflect.Interface, reflect.Slice, reflect.Array, reflect.Map, reflect.Struct:
				writable(out.Field(i)).Set(cloneValue(writable(f), seen))
			}
		}
	default:
		out.Set(src)
	}
	return out
}
