// Package verifrt is the run-time side of the check-time instrumentation.
//
// It is overlaid into the module under test as
// github.com/woodsbury/jmespath/internal/verifrt. In the pristine build nothing
// in the library calls it; in the instrumented build every range over a map goes
// through Pairs (environment answer), every function entry calls Yield
// (scheduling point) and every loop body calls Tick (deterministic cost).
package verifrt

import (
	"cmp"
	"sort"
)

// Instrumented is set by the generated registration files of the
// instrumented build.
var Instrumented bool

// Perm, when non-nil, answers one environment question: "in which order are
// the n keys of the map ranged over at site enumerated?". It returns a
// permutation of 0..n-1 applied to the sorted key list. nil means sorted order.
var Perm func(site string, n int) []int

// Sched, when non-nil, is called at every yield point.
var Sched func(site string)

// Tick accounting (single-goroutine use only).
var (
	TickOn     bool
	Ticks      int64
	TickBudget int64
)

// BudgetExceeded is the panic value used to abort a run-away loop.
type BudgetExceeded struct{ Ticks int64 }

// KV is one map entry.
type KV[K cmp.Ordered, V any] struct {
	K K
	V V
}

// Sites counts how often each map-range site was reached (single goroutine).
var Sites map[string]int

// Pairs returns the entries of m in the order chosen by the explorer
// (sorted by key when no explorer is installed).
func Pairs[K cmp.Ordered, V any](site string, m map[K]V) []KV[K, V] {
	if len(m) == 0 {
		return nil
	}
	keys := make([]K, 0, len(m))
	for k := range m {
		keys = append(keys, k)
	}
	sort.Slice(keys, func(i, j int) bool { return keys[i] < keys[j] })
	if Sites != nil {
		Sites[site]++
	}
	out := make([]KV[K, V], len(keys))
	if Perm != nil && len(keys) > 1 {
		p := Perm(site, len(keys))
		for i, j := range p {
			out[i] = KV[K, V]{keys[j], m[keys[j]]}
		}
		return out
	}
	for i, k := range keys {
		out[i] = KV[K, V]{k, m[k]}
	}
	return out
}

// Yield is a scheduling point; a function entry also counts as one unit of deterministic cost, so that recursion is
// as visible to the budget as iteration.
func Yield(site string) {
	if TickOn {
		Ticks++
		if TickBudget > 0 && Ticks > TickBudget {
			panic(BudgetExceeded{Ticks})
		}
	}
	if Sched != nil {
		Sched(site)
	}
}

// Tick counts one loop iteration; under the scheduler a loop iteration is a scheduling point too (code between two
// function entries is not atomic when it loops).
func Tick() {
	if TickOn {
		Ticks++
		if TickBudget > 0 && Ticks > TickBudget {
			panic(BudgetExceeded{Ticks})
		}
	}
	if Sched != nil {
		Sched("loop")
	}
}

// Global is one registered package-level variable of the library.
type Global struct {
	Name string
	Ptr  any
}

// Globals lists every package-level variable of the instrumented packages.
var Globals []Global

// Register records the address of a package-level variable.
func Register(name string, ptr any) {
	Globals = append(Globals, Global{name, ptr})
}

// Facts about the instrumented tree, filled in by the generated files.
var (
	UsesSync     []string // files importing sync or sync/atomic
	UsesGo       []string // positions of go statements
	UsesChan     []string // positions of channel operations
	MapSites     []string // map-range sites rewritten
	SkippedSites []string // map-range sites left alone (with reason)
)

// ---------------------------------------------------------------------------
// Models of the sync types, substituted by the instrumenter (sync.Mutex -> verifrt.Mutex, ...). Under the cooperative
// scheduler exactly one goroutine runs at a time, so the models need no real synchronisation; what they add is
// visibility: every operation is a scheduling point, and waiting for a lock blocks the task in the scheduler instead
// of the operating system (a task parked while it holds a real lock would deadlock the explorer).

// SyncUnmodelled lists uses of sync identifiers that have no model (the schedule search then stays non-preemptive).
var SyncUnmodelled []string

// SyncModelled lists the rewritten uses.
var SyncModelled []string

// Block parks the running task until Wake is called with the same key; Aborting is set when the scheduler gives up.
var (
	Block    func(key any)
	Wake     func(key any)
	Aborting bool
)

// Aborted is the panic value with which a blocked task is released when an execution is abandoned.
type Aborted struct{}

func wait(key any) {
	if Aborting {
		panic(Aborted{})
	}
	if Block == nil {
		panic("verifrt: a goroutine waits for a lock that nothing can release (not under the scheduler)")
	}
	Block(key)
	if Aborting {
		panic(Aborted{})
	}
}

func wake(key any) {
	if Wake != nil {
		Wake(key)
	}
}

// Mutex models sync.Mutex.
type Mutex struct{ locked bool }

func (m *Mutex) Lock() {
	Yield("sync.Mutex.Lock")
	for m.locked {
		wait(m)
	}
	m.locked = true
}

func (m *Mutex) TryLock() bool {
	Yield("sync.Mutex.TryLock")
	if m.locked {
		return false
	}
	m.locked = true
	return true
}

func (m *Mutex) Unlock() {
	if !m.locked {
		panic("sync: unlock of unlocked mutex")
	}
	m.locked = false
	wake(m)
	Yield("sync.Mutex.Unlock")
}

// RWMutex models sync.RWMutex (no writer preference: the explorer tries every order anyway).
type RWMutex struct {
	writer  bool
	readers int
}

func (m *RWMutex) Lock() {
	Yield("sync.RWMutex.Lock")
	for m.writer || m.readers > 0 {
		wait(m)
	}
	m.writer = true
}

func (m *RWMutex) Unlock() {
	if !m.writer {
		panic("sync: Unlock of unlocked RWMutex")
	}
	m.writer = false
	wake(m)
	Yield("sync.RWMutex.Unlock")
}

func (m *RWMutex) RLock() {
	Yield("sync.RWMutex.RLock")
	for m.writer {
		wait(m)
	}
	m.readers++
}

func (m *RWMutex) RUnlock() {
	if m.readers <= 0 {
		panic("sync: RUnlock of unlocked RWMutex")
	}
	m.readers--
	wake(m)
	Yield("sync.RWMutex.RUnlock")
}

func (m *RWMutex) TryLock() bool {
	Yield("sync.RWMutex.TryLock")
	if m.writer || m.readers > 0 {
		return false
	}
	m.writer = true
	return true
}

func (m *RWMutex) TryRLock() bool {
	Yield("sync.RWMutex.TryRLock")
	if m.writer {
		return false
	}
	m.readers++
	return true
}

// Once models sync.Once.
type Once struct {
	done bool
	m    Mutex
}

func (o *Once) Do(f func()) {
	Yield("sync.Once.Do")
	if o.done {
		return
	}
	o.m.Lock()
	defer o.m.Unlock()
	if !o.done {
		defer func() { o.done = true }()
		f()
	}
}

// Pool models sync.Pool as a stack that never forgets (the garbage collector is not part of the schedule).
type Pool struct {
	New   func() any
	items []any
}

func (p *Pool) Get() any {
	Yield("sync.Pool.Get")
	if n := len(p.items); n > 0 {
		x := p.items[n-1]
		p.items = p.items[:n-1]
		return x
	}
	if p.New != nil {
		return p.New()
	}
	return nil
}

func (p *Pool) Put(x any) {
	Yield("sync.Pool.Put")
	if x == nil {
		return
	}
	p.items = append(p.items, x)
}

// Map models sync.Map.
type Map struct{ m map[any]any }

func (m *Map) Load(key any) (any, bool) {
	Yield("sync.Map.Load")
	v, ok := m.m[key]
	return v, ok
}

func (m *Map) Store(key, value any) {
	Yield("sync.Map.Store")
	if m.m == nil {
		m.m = map[any]any{}
	}
	m.m[key] = value
}

func (m *Map) LoadOrStore(key, value any) (any, bool) {
	Yield("sync.Map.LoadOrStore")
	if v, ok := m.m[key]; ok {
		return v, true
	}
	if m.m == nil {
		m.m = map[any]any{}
	}
	m.m[key] = value
	return value, false
}

func (m *Map) LoadAndDelete(key any) (any, bool) {
	Yield("sync.Map.LoadAndDelete")
	v, ok := m.m[key]
	delete(m.m, key)
	return v, ok
}

func (m *Map) Delete(key any) {
	Yield("sync.Map.Delete")
	delete(m.m, key)
}

func (m *Map) Swap(key, value any) (any, bool) {
	Yield("sync.Map.Swap")
	v, ok := m.m[key]
	if m.m == nil {
		m.m = map[any]any{}
	}
	m.m[key] = value
	return v, ok
}

func (m *Map) CompareAndSwap(key, old, new any) bool {
	Yield("sync.Map.CompareAndSwap")
	if v, ok := m.m[key]; ok && v == old {
		m.m[key] = new
		return true
	}
	return false
}

func (m *Map) CompareAndDelete(key, old any) bool {
	Yield("sync.Map.CompareAndDelete")
	if v, ok := m.m[key]; ok && v == old {
		delete(m.m, key)
		return true
	}
	return false
}

func (m *Map) Range(f func(key, value any) bool) {
	Yield("sync.Map.Range")
	keys := make([]any, 0, len(m.m))
	for k := range m.m {
		keys = append(keys, k)
	}
	sort.Slice(keys, func(i, j int) bool { return less(keys[i], keys[j]) })
	for _, k := range keys {
		v, ok := m.m[k]
		if !ok {
			continue
		}
		if !f(k, v) {
			return
		}
	}
}

func (m *Map) Clear() {
	Yield("sync.Map.Clear")
	m.m = nil
}

func less(a, b any) bool {
	switch x := a.(type) {
	case string:
		if y, ok := b.(string); ok {
			return x < y
		}
	case int:
		if y, ok := b.(int); ok {
			return x < y
		}
	}
	return fmtKey(a) < fmtKey(b)
}

func fmtKey(v any) string {
	switch x := v.(type) {
	case string:
		return "s" + x
	case int:
		return "i" + itoa(x)
	}
	return "?"
}

func itoa(n int) string {
	if n == 0 {
		return "0"
	}
	neg := n < 0
	if neg {
		n = -n
	}
	var b [24]byte
	i := len(b)
	for n > 0 {
		i--
		b[i] = byte('0' + n%10)
		n /= 10
	}
	if neg {
		i--
		b[i] = '-'
	}
	return string(b[i:])
}

// ---------------------------------------------------------------------------
// Models of the typed atomics of sync/atomic: plain fields (one goroutine runs at a time), every operation a
// scheduling point, so that a check-then-act sequence built from atomic operations can be interleaved.

type AtomicPointer[T any] struct{ p *T }

func (a *AtomicPointer[T]) Load() *T { Yield("atomic.Pointer.Load"); return a.p }
func (a *AtomicPointer[T]) Store(p *T) {
	Yield("atomic.Pointer.Store")
	a.p = p
}
func (a *AtomicPointer[T]) Swap(p *T) *T {
	Yield("atomic.Pointer.Swap")
	old := a.p
	a.p = p
	return old
}
func (a *AtomicPointer[T]) CompareAndSwap(old, new *T) bool {
	Yield("atomic.Pointer.CompareAndSwap")
	if a.p == old {
		a.p = new
		return true
	}
	return false
}

type AtomicValue struct{ v any }

func (a *AtomicValue) Load() any { Yield("atomic.Value.Load"); return a.v }
func (a *AtomicValue) Store(v any) {
	Yield("atomic.Value.Store")
	a.v = v
}
func (a *AtomicValue) Swap(v any) any {
	Yield("atomic.Value.Swap")
	old := a.v
	a.v = v
	return old
}
func (a *AtomicValue) CompareAndSwap(old, new any) bool {
	Yield("atomic.Value.CompareAndSwap")
	if a.v == old {
		a.v = new
		return true
	}
	return false
}

type atomicInt interface {
	~int32 | ~int64 | ~uint32 | ~uint64 | ~uintptr
}

// AtomicInt models atomic.Int32, Int64, Uint32, Uint64 and Uintptr.
type AtomicInt[T atomicInt] struct{ v T }

func (a *AtomicInt[T]) Load() T { Yield("atomic.Int.Load"); return a.v }
func (a *AtomicInt[T]) Store(v T) {
	Yield("atomic.Int.Store")
	a.v = v
}
func (a *AtomicInt[T]) Add(d T) T {
	Yield("atomic.Int.Add")
	a.v += d
	return a.v
}
func (a *AtomicInt[T]) Swap(v T) T {
	Yield("atomic.Int.Swap")
	old := a.v
	a.v = v
	return old
}
func (a *AtomicInt[T]) CompareAndSwap(old, new T) bool {
	Yield("atomic.Int.CompareAndSwap")
	if a.v == old {
		a.v = new
		return true
	}
	return false
}
func (a *AtomicInt[T]) And(m T) T {
	Yield("atomic.Int.And")
	old := a.v
	a.v &= m
	return old
}
func (a *AtomicInt[T]) Or(m T) T {
	Yield("atomic.Int.Or")
	old := a.v
	a.v |= m
	return old
}

type AtomicInt32 = AtomicInt[int32]
type AtomicInt64 = AtomicInt[int64]
type AtomicUint32 = AtomicInt[uint32]
type AtomicUint64 = AtomicInt[uint64]
type AtomicUintptr = AtomicInt[uintptr]

type AtomicBool struct{ v bool }

func (a *AtomicBool) Load() bool { Yield("atomic.Bool.Load"); return a.v }
func (a *AtomicBool) Store(v bool) {
	Yield("atomic.Bool.Store")
	a.v = v
}
func (a *AtomicBool) Swap(v bool) bool {
	Yield("atomic.Bool.Swap")
	old := a.v
	a.v = v
	return old
}
func (a *AtomicBool) CompareAndSwap(old, new bool) bool {
	Yield("atomic.Bool.CompareAndSwap")
	if a.v == old {
		a.v = new
		return true
	}
	return false
}
