// Package verifrt is the run-time side of the check-time instrumentation.
//
// It is overlaid into the module under test as
// github.com/woodsbury/jmespath/internal/verifrt. In the pristine build nothing
// in the library calls it; in the instrumented build every range over a map goes
// through Pairs (environment answer), every function entry calls Yield
// (scheduling point) and every loop body calls Tick (deterministic cost).
package verifrt

import (
	"cmp"
	"sort"
)

// Instrumented is set by the generated registration files of the
// instrumented build.
var Instrumented bool

// Perm, when non-nil, answers one environment question: "in which order are
// the n keys of the map ranged over at site enumerated?". It returns a
// permutation of 0..n-1 applied to the sorted key list. nil means sorted order.
var Perm func(site string, n int) []int

// Sched, when non-nil, is called at every yield point.
var Sched func(site string)

// Tick accounting (single-goroutine use only).
var (
	TickOn     bool
	Ticks      int64
	TickBudget int64
)

// BudgetExceeded is the panic value used to abort a run-away loop.
type BudgetExceeded struct{ Ticks int64 }

// KV is one map entry.
type KV[K cmp.Ordered, V any] struct {
	K K
	V V
}

// Sites counts how often each map-range site was reached (single goroutine).
var Sites map[string]int

// Pairs returns the entries of m in the order chosen by the explorer
// (sorted by key when no explorer is installed).
func Pairs[K cmp.Ordered, V any](site string, m map[K]V) []KV[K, V] {
	if len(m) == 0 {
		return nil
	}
	keys := make([]K, 0, len(m))
	for k := range m {
		keys = append(keys, k)
	}
	sort.Slice(keys, func(i, j int) bool { return keys[i] < keys[j] })
	if Sites != nil {
		Sites[site]++
	}
	out := make([]KV[K, V], len(keys))
	if Perm != nil && len(keys) > 1 {
		p := Perm(site, len(keys))
		for i, j := range p {
			out[i] = KV[K, V]{keys[j], m[keys[j]]}
		}
		return out
	}
	for i, k := range keys {
		out[i] = KV[K, V]{k, m[k]}
	}
	return out
}

// Yield is a scheduling point; a function entry also counts as one unit of deterministic cost, so that recursion is
// as visible to the budget as iteration.
func Yield(site string) {
	if TickOn {
		Ticks++
		if TickBudget > 0 && Ticks > TickBudget {
			panic(BudgetExceeded{Ticks})
		}
	}
	if Sched != nil {
		Sched(site)
	}
}

// Tick counts one loop iteration.
func Tick() {
	if TickOn {
		Ticks++
		if TickBudget > 0 && Ticks > TickBudget {
			panic(BudgetExceeded{Ticks})
		}
	}
}

// Global is one registered package-level variable of the library.
type Global struct {
	Name string
	Ptr  any
}

// Globals lists every package-level variable of the instrumented packages.
var Globals []Global

// Register records the address of a package-level variable.
func Register(name string, ptr any) {
	Globals = append(Globals, Global{name, ptr})
}

// Facts about the instrumented tree, filled in by the generated files.
var (
	UsesSync     []string // files importing sync or sync/atomic
	UsesGo       []string // positions of go statements
	UsesChan     []string // positions of channel operations
	MapSites     []string // map-range sites rewritten
	SkippedSites []string // map-range sites left alone (with reason)
)
